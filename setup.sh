#!/bin/sh
# Offline setup: nothing is fetched. Creates scratch directories and checks the tools the checks need.
set -e
cd "$(dirname "$0")"
mkdir -p .work/out .work/playback evidence replays
export CARGO_NET_OFFLINE=true
cargo kani --version >/dev/null
command -v z3 >/dev/null
python3 -c "import json, re, subprocess" 
echo "setup ok"
