//! A few small concrete games built through the public constructor.
use cfr::{Game, GameNode, IntoGameNode, PlayerNum, Strategies};

pub struct N(pub GameNode<N>);

impl IntoGameNode for N {
    type PlayerInfo = String;
    type Action = String;
    type ChanceInfo = String;
    type Outcomes = Vec<(f64, N)>;
    type Actions = Vec<(String, N)>;
    fn into_game_node(self) -> GameNode<Self> {
        self.0
    }
}

pub fn t(v: f64) -> N {
    N(GameNode::Terminal(v))
}
pub fn p(num: PlayerNum, info: &str, acts: Vec<(&str, N)>) -> N {
    N(GameNode::Player(num, info.to_string(), acts.into_iter().map(|(a, n)| (a.to_string(), n)).collect()))
}
pub fn c(info: Option<&str>, outs: Vec<(f64, N)>) -> N {
    N(GameNode::Chance(info.map(|s| s.to_string()), outs))
}

pub type G = Game<String, String>;

pub fn named_of(s: &Strategies<String, String>) -> Vec<Vec<(String, Vec<(String, u64)>)>> {
    s.as_named()
        .into_iter()
        .map(|it| {
            let mut v: Vec<(String, Vec<(String, u64)>)> = it
                .map(|(i, acts)| (i.clone(), acts.map(|(a, p)| (a.clone(), p.to_bits())).collect()))
                .collect();
            v.sort();
            v
        })
        .collect()
}

use PlayerNum::{One, Two};

pub fn small_games() -> Vec<(&'static str, G)> {
    let mut v = Vec::new();
    // matching-pennies-like with unequal payoffs: both players decide
    v.push((
        "pennies",
        Game::from_root(p(One, "a", vec![
            ("h", p(Two, "b", vec![("h", t(2.0)), ("t", t(-1.0))])),
            ("t", p(Two, "b", vec![("h", t(-1.0)), ("t", t(1.0))])),
        ])).unwrap(),
    ));
    // only player two decides
    v.push((
        "only_two",
        Game::from_root(c(None, vec![
            (1.0, p(Two, "x", vec![("l", t(1.0)), ("r", t(-2.0)), ("m", t(0.5))])),
            (3.0, p(Two, "y", vec![("l", t(-1.0)), ("r", t(2.0))])),
        ])).unwrap(),
    ));
    // only player one decides
    v.push((
        "only_one",
        Game::from_root(p(One, "x", vec![("l", t(1.0)), ("r", c(None, vec![(1.0, t(3.0)), (1.0, t(-2.0))]))])).unwrap(),
    ));
    // chance, then both, player two's infoset spans the deals (skewed chance)
    v.push((
        "skewed",
        Game::from_root(c(None, vec![
            (1.0, p(One, "d1", vec![("stop", t(1.0)), ("go", p(Two, "z", vec![("x", t(3.0)), ("y", t(-2.0))]))])),
            (3.0, p(One, "d2", vec![("stop", t(-1.0)), ("go", p(Two, "z", vec![("x", t(-3.0)), ("y", t(2.0))]))])),
        ])).unwrap(),
    ));
    v
}

fn mix(mut x: u64) -> u64 {
    x ^= x >> 33;
    x = x.wrapping_mul(0xff51afd7ed558ccd);
    x ^= x >> 33;
    x = x.wrapping_mul(0xc4ceb9fe1a85ec53);
    x ^= x >> 33;
    x
}

/// Tree of the given depth; node kinds/players/branching derived from (seed, path). Every decision node
/// has its own infoset (so perfect recall holds trivially). `chance`: allow chance nodes.
pub fn family_tree(seed: u64, depth: u32, path: u64, chance: bool) -> N {
    let h = mix(seed.wrapping_mul(1_000_003).wrapping_add(path));
    if depth == 0 {
        return t(((h % 17) as f64 - 8.0) / 2.0);
    }
    let width = 2 + (h >> 8) % 2; // 2 or 3 children
    let kind = (h >> 16) % 5;
    let kidsv = |n: u64| -> Vec<N> { (0..n).map(|i| family_tree(seed, depth - 1, path * 4 + i + 1, chance)).collect() };
    if chance && kind == 0 {
        let ks = kidsv(width);
        c(None, ks.into_iter().enumerate().map(|(i, n)| (1.0 + ((h >> (20 + i)) % 3) as f64, n)).collect())
    } else {
        let who = if (h >> 24) % 2 == 0 { One } else { Two };
        let name = format!("i{path}");
        let ks = kidsv(width);
        let acts = ["a", "b", "c"];
        N(GameNode::Player(who, name, ks.into_iter().enumerate().map(|(i, n)| (acts[i].to_string(), n)).collect()))
    }
}

pub fn family(chance: bool) -> Vec<(String, G)> {
    let mut v = Vec::new();
    for seed in 1..=6u64 {
        for depth in 2..=5u32 {
            if let Ok(g) = Game::from_root(family_tree(seed, depth, 0, chance)) {
                v.push((format!("fam(seed={seed},depth={depth},chance={chance})"), g));
            }
        }
    }
    v
}
