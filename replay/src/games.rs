//! A few small concrete games built through the public constructor.
use cfr::{Game, GameNode, IntoGameNode, PlayerNum, Strategies};

pub struct N(pub GameNode<N>);

impl IntoGameNode for N {
    type PlayerInfo = String;
    type Action = String;
    type ChanceInfo = String;
    type Outcomes = Vec<(f64, N)>;
    type Actions = Vec<(String, N)>;
    fn into_game_node(self) -> GameNode<Self> {
        self.0
    }
}

pub fn t(v: f64) -> N {
    N(GameNode::Terminal(v))
}
pub fn p(num: PlayerNum, info: &str, acts: Vec<(&str, N)>) -> N {
    N(GameNode::Player(num, info.to_string(), acts.into_iter().map(|(a, n)| (a.to_string(), n)).collect()))
}
pub fn c(info: Option<&str>, outs: Vec<(f64, N)>) -> N {
    N(GameNode::Chance(info.map(|s| s.to_string()), outs))
}

pub type G = Game<String, String>;

pub fn named_of(s: &Strategies<String, String>) -> Vec<Vec<(String, Vec<(String, u64)>)>> {
    s.as_named()
        .into_iter()
        .map(|it| {
            let mut v: Vec<(String, Vec<(String, u64)>)> = it
                .map(|(i, acts)| (i.clone(), acts.map(|(a, p)| (a.clone(), p.to_bits())).collect()))
                .collect();
            v.sort();
            v
        })
        .collect()
}

use PlayerNum::{One, Two};

pub fn small_games() -> Vec<(&'static str, G)> {
    let mut v = Vec::new();
    // matching-pennies-like with unequal payoffs: both players decide
    v.push((
        "pennies",
        Game::from_root(p(One, "a", vec![
            ("h", p(Two, "b", vec![("h", t(2.0)), ("t", t(-1.0))])),
            ("t", p(Two, "b", vec![("h", t(-1.0)), ("t", t(1.0))])),
        ])).unwrap(),
    ));
    // only player two decides
    v.push((
        "only_two",
        Game::from_root(c(None, vec![
            (1.0, p(Two, "x", vec![("l", t(1.0)), ("r", t(-2.0)), ("m", t(0.5))])),
            (3.0, p(Two, "y", vec![("l", t(-1.0)), ("r", t(2.0))])),
        ])).unwrap(),
    ));
    // only player one decides
    v.push((
        "only_one",
        Game::from_root(p(One, "x", vec![("l", t(1.0)), ("r", c(None, vec![(1.0, t(3.0)), (1.0, t(-2.0))]))])).unwrap(),
    ));
    // chance, then both, player two's infoset spans the deals (skewed chance)
    v.push((
        "skewed",
        Game::from_root(c(None, vec![
            (1.0, p(One, "d1", vec![("stop", t(1.0)), ("go", p(Two, "z", vec![("x", t(3.0)), ("y", t(-2.0))]))])),
            (3.0, p(One, "d2", vec![("stop", t(-1.0)), ("go", p(Two, "z", vec![("x", t(-3.0)), ("y", t(2.0))]))])),
        ])).unwrap(),
    ));
    v
}
