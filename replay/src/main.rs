//! Native confirmation of solver counterexamples through the crate's PUBLIC API only.
//! This never decides a property; it is run after a solver counterexample to see whether the
//! misbehaviour is observable on the real build. Output: one JSON object on stdout.
use cfr::{Game, PlayerNum, RegretParams, SolveMethod};

mod ctor;
mod eval;
mod games;
use games::*;

fn bits(v: f64) -> u64 {
    v.to_bits()
}

/// C09: thresholded Full solve (1 thread) versus un-thresholded prefixes, thresholds below / at /
/// above every bound value along the run plus special values.
fn c09() -> (usize, Vec<String>) {
    let mut bad = Vec::new();
    let mut runs = 0usize;
    for (gname, game) in small_games() {
        for (pname, params) in [("vanilla", RegretParams::vanilla()), ("dcfr", RegretParams::dcfr())] {
            let nmax = 8u64;
            // prefix runs
            let mut pre = Vec::new();
            for t in 0..=nmax {
                let (s, b) = game.solve(SolveMethod::Full, t, 0.0, 1, Some(params)).unwrap();
                let named = named_of(&s);
                pre.push((b.player_regret_bound(PlayerNum::One), b.player_regret_bound(PlayerNum::Two), named));
            }
            let mut thresholds = vec![0.0, -0.0, -1.0, f64::NAN, f64::INFINITY, f64::NEG_INFINITY, 1e300, f64::MIN_POSITIVE];
            for (b1, b2, _) in pre.iter().skip(1) {
                for v in [*b1, *b2, f64::max(*b1, *b2)] {
                    thresholds.push(v);
                    thresholds.push(f64::from_bits(v.to_bits().wrapping_add(1)));
                    if v > 0.0 {
                        thresholds.push(f64::from_bits(v.to_bits() - 1));
                    }
                }
            }
            for n in 0..=nmax {
                for &r in &thresholds {
                    runs += 1;
                    let (s, b) = game.solve(SolveMethod::Full, n, r, 1, Some(params)).unwrap();
                    let mut tstar = n;
                    for t in 1..=n {
                        let (b1, b2, _) = &pre[t as usize];
                        if f64::max(*b1, *b2) < r {
                            tstar = t;
                            break;
                        }
                    }
                    let (e1, e2, en) = &pre[tstar as usize];
                    let g1 = b.player_regret_bound(PlayerNum::One);
                    let g2 = b.player_regret_bound(PlayerNum::Two);
                    if bits(g1) != bits(*e1) || bits(g2) != bits(*e2) || named_of(&s) != *en {
                        if bad.len() < 5 {
                            bad.push(format!(
                                "game={gname} params={pname} N={n} r={r:e} expected t*={tstar} bounds=({e1:e},{e2:e}) got=({g1:e},{g2:e})"
                            ));
                        } else {
                            bad.push(String::new());
                        }
                    }
                }
            }
        }
    }
    (runs, bad)
}

fn probs_of(s: &cfr::Strategies<String, String>) -> Vec<(String, String, f64)> {
    let mut out = Vec::new();
    for (pi, it) in s.as_named().into_iter().enumerate() {
        for (i, acts) in it {
            for (a, p) in acts {
                out.push((format!("{pi}:{i}"), a.clone(), p));
            }
        }
    }
    out.sort_by(|x, y| (x.0.clone(), x.1.clone()).cmp(&(y.0.clone(), y.1.clone())));
    out
}

fn max_diff(a: &[(String, String, f64)], b: &[(String, String, f64)]) -> f64 {
    // zero-probability actions are omitted from the view: compare as maps
    use std::collections::BTreeMap;
    let ma: BTreeMap<_, _> = a.iter().map(|(i, x, p)| ((i.clone(), x.clone()), *p)).collect();
    let mb: BTreeMap<_, _> = b.iter().map(|(i, x, p)| ((i.clone(), x.clone()), *p)).collect();
    let mut d: f64 = 0.0;
    for (k, p) in ma.iter() {
        d = d.max((p - mb.get(k).copied().unwrap_or(0.0)).abs());
    }
    for (k, p) in mb.iter() {
        d = d.max((p - ma.get(k).copied().unwrap_or(0.0)).abs());
    }
    d
}

/// C06 (and the deterministic part of C07): 1 thread versus k threads, Full on every family game and
/// Sampled on the chance-free ones (where chance sampling has nothing to sample).
fn threads(methods: &[(SolveMethod, bool)]) -> (usize, Vec<String>) {
    let mut bad = Vec::new();
    let mut runs = 0usize;
    for &(method, with_chance) in methods {
        for (gname, game) in family(with_chance) {
            for (pname, params) in [("vanilla", RegretParams::vanilla()), ("dcfr", RegretParams::dcfr())] {
                for t in [1u64, 2, 3, 4, 7] {
                    let (s1, b1) = game.solve(method, t, 0.0, 1, Some(params)).unwrap();
                    let p1 = probs_of(&s1);
                    for k in [2usize, 3, 4, 6] {
                        runs += 1;
                        let (sk, bk) = game.solve(method, t, 0.0, k, Some(params)).unwrap();
                        let d = max_diff(&p1, &probs_of(&sk));
                        let db = (b1.regret_bound() - bk.regret_bound()).abs();
                        if !(d <= 1e-9) || !(db <= 1e-9 * (1.0 + b1.regret_bound().abs())) {
                            if bad.len() < 5 {
                                bad.push(format!("game={gname} method={method:?} params={pname} T={t} threads={k}: strategies differ by {d:e}, bound by {db:e}"));
                            } else {
                                bad.push(String::new());
                            }
                        }
                    }
                }
            }
        }
    }
    (runs, bad)
}

/// C07 (randomised part): multi-threaded sampled solvers must never panic (two workers meeting at
/// one infoset) and must return valid profiles with small true regret after many iterations.
fn sampled_multi() -> (usize, Vec<String>) {
    let mut bad = Vec::new();
    let mut runs = 0usize;
    for (gname, game) in family(true) {
        for method in [SolveMethod::External, SolveMethod::Sampled] {
            for k in [2usize, 4] {
                for rep in 0..3 {
                    runs += 1;
                    let res = std::panic::catch_unwind(std::panic::AssertUnwindSafe(|| {
                        let (s, _) = game.solve(method, 400, 0.0, k, Some(RegretParams::vanilla())).unwrap();
                        let (s1, _) = game.solve(method, 400, 0.0, 1, Some(RegretParams::vanilla())).unwrap();
                        (s.get_info().regret(), s1.get_info().regret())
                    }));
                    let msg = match res {
                        Err(_) => Some("panicked".to_string()),
                        Ok((rk, _r1)) if !(rk.is_finite()) => Some(format!("regret {rk}")),
                        Ok((rk, r1)) if rk > 10.0 * r1 + 0.5 => Some(format!("regret {rk:.3} with {k} threads versus {r1:.3} with one")),
                        _ => None,
                    };
                    if let Some(m) = msg {
                        if bad.len() < 5 {
                            bad.push(format!("game={gname} method={method:?} threads={k} rep={rep}: {m}"));
                        } else {
                            bad.push(String::new());
                        }
                    }
                }
            }
        }
    }
    (runs, bad)
}

/// C16: library solutions (deterministic method) of a small game with a chance node, for the
/// documented meaning of the CLI options; also writes the game in the JSON DSL for the binary.
fn cli16() -> String {
    use cfr::PlayerNum::{One, Two};
    let a = [[3.0, -1.0], [-2.0, 4.0], [-3.0, -2.0]];
    let b = [[-1.0, 2.0], [1.0, -3.0], [0.5, 0.5]];
    let rows = ["a1", "a2", "a3"];
    let cols = ["b1", "b2"];
    let sub = |m: [[f64; 2]; 3], pinfo: &str| {
        p(One, pinfo, (0..3).map(|i| (rows[i], p(Two, "q", (0..2).map(|j| (cols[j], t(m[i][j]))).collect()))).collect())
    };
    let game = Game::from_root(c(None, vec![(1.0, sub(a, "p")), (3.0, sub(b, "r"))])).unwrap();
    // the same game in the JSON DSL
    let js = |m: [[f64; 2]; 3], pinfo: &str| -> String {
        let acts: Vec<String> = (0..3)
            .map(|i| {
                let inner: Vec<String> = (0..2).map(|j| format!("\"{}\": {{\"terminal\": {}}}", cols[j], m[i][j])).collect();
                format!("\"{}\": {{\"player\": {{\"player_one\": false, \"infoset\": \"q\", \"actions\": {{{}}}}}}}", rows[i], inner.join(", "))
            })
            .collect();
        format!("{{\"player\": {{\"player_one\": true, \"infoset\": \"{}\", \"actions\": {{{}}}}}}}", pinfo, acts.join(", "))
    };
    let text = format!(
        "{{\"chance\": {{\"outcomes\": {{\"x\": {{\"prob\": 1.0, \"state\": {}}}, \"y\": {{\"prob\": 3.0, \"state\": {}}}}}}}}}",
        js(a, "p"),
        js(b, "r")
    );
    let dir = "/verif/.work/cli-games";
    let _ = std::fs::create_dir_all(dir);
    std::fs::write(format!("{dir}/chance_game.json"), text).unwrap();
    let presets = [
        ("vanilla", RegretParams::vanilla()),
        ("lcfr", RegretParams::lcfr()),
        ("cfr-plus", RegretParams::cfr_plus()),
        ("dcfr", RegretParams::dcfr()),
        ("dcfr-prune", RegretParams::dcfr_prune()),
    ];
    let mut items = Vec::new();
    let mut push = |key: String, s: &cfr::Strategies<String, String>| {
        let named = probs_of(s);
        let get = |i: &str, a: &str| named.iter().find(|(x, y, _)| x == i && y == a).map(|v| v.2).unwrap_or(0.0);
        let mut v = Vec::new();
        for info in ["0:p", "0:r"] {
            for r in rows {
                v.push(get(info, r));
            }
        }
        for cname in cols {
            v.push(get("1:q", cname));
        }
        items.push(format!("\"{}\": [{}]", key, v.iter().map(|x| format!("{x:e}")).collect::<Vec<_>>().join(",")));
    };
    for (name, params) in presets {
        for (t, thr) in [(37u64, 0.0), (400, 0.35)] {
            let (s, _) = game.solve(SolveMethod::Full, t, thr, 1, Some(params)).unwrap();
            push(format!("full|{name}|{t}|{thr}"), &s);
        }
    }
    format!("{{\"check\":\"cli16\",\"runs\":{},\"violations\":0,\"solutions\":{{{}}}}}", items.len(), items.join(","))
}

/// External sampling, one thread, on games where sampling cannot matter (only one player has
/// decisions, no chance): (1) returned strategies for T = 1..6 against the textbook discounted
/// update with weights t^gamma; (2) thresholded runs against prefix runs.
fn xdriver() -> (usize, Vec<String>) {
    use cfr::PlayerNum::{One, Two};
    let mut bad = Vec::new();
    let mut runs = 0usize;
    let pays = [1.5, -2.0, 0.5];
    let names = ["a", "b", "c"];
    for who in [One, Two] {
        let game = Game::from_root(p(who, "x", (0..3).map(|i| (names[i], t(pays[i]))).collect())).unwrap();
        let sign = if matches!(who, One) { 1.0 } else { -1.0 };
        for (pname, al, be, ga) in [("vanilla", f64::INFINITY, f64::INFINITY, 0.0), ("g1", f64::INFINITY, 0.0, 1.0), ("g2", 0.0, f64::NEG_INFINITY, 2.0), ("finite", 1.5, 0.5, 2.0), ("finite2", 3.0, 1.0, 0.5)] {
          for method in [SolveMethod::External, SolveMethod::Full] {
            let params = RegretParams::new(al, be, ga, 0.0);
            // documented factor t^x / (t^x + 1), with the limits 0, 1/2, 1
            let disc_t = |x: f64, tt: u64| -> f64 {
                if x == f64::INFINITY { 1.0 } else if x == 0.0 { 0.5 } else if x == f64::NEG_INFINITY { 0.0 } else { let pw = (tt as f64).powf(x); pw / (pw + 1.0) }
            };
            // textbook
            let mut reg = [0.0f64; 3];
            let mut avg = [0.0f64; 3];
            let mut sigma = [1.0 / 3.0; 3];
            let mut expect = Vec::new();
            for tt in 1..=6u64 {
                // the deciding player's average receives sigma_t with weight t^gamma
                let w = (tt as f64).powf(ga);
                let v: f64 = (0..3).map(|i| sigma[i] * sign * pays[i]).sum();
                // in the unsampled method both averages are fed during the traversal, before the update
                let first = matches!(who, One) && matches!(method, SolveMethod::External);
                for i in 0..3 {
                    // player two's average is fed during player one's pass, before its own update;
                    // player one's average is fed during player two's pass, i.e. after its update
                    if !first {
                        avg[i] += w * sigma[i];
                    }
                    reg[i] += sign * pays[i] - v;
                }
                let pos: f64 = reg.iter().filter(|r| **r > 0.0).sum();
                for i in 0..3 {
                    sigma[i] = if pos > 0.0 { if reg[i] > 0.0 { reg[i] / pos } else { 0.0 } } else { 1.0 / 3.0 };
                }
                if first {
                    for i in 0..3 {
                        avg[i] += w * sigma[i];
                    }
                }
                for r in reg.iter_mut() {
                    if *r > 0.0 { *r *= disc_t(al, tt) } else if *r < 0.0 { *r *= disc_t(be, tt) }
                }
                let tot: f64 = avg.iter().sum();
                expect.push([avg[0] / tot, avg[1] / tot, avg[2] / tot]);
            }
            for tt in 1..=6u64 {
                runs += 1;
                let (s, _) = game.solve(method, tt, 0.0, 1, Some(params)).unwrap();
                let named = probs_of(&s);
                let got: Vec<f64> = names.iter().map(|n| named.iter().find(|(_, a, _)| a == n).map(|x| x.2).unwrap_or(0.0)).collect();
                let e = expect[(tt - 1) as usize];
                if (0..3).any(|i| (got[i] - e[i]).abs() > 1e-9) {
                    if bad.len() < 5 {
                        bad.push(format!("{method:?}, only player {who:?} decides, params {pname}, T={tt}: strategy {got:?} but the textbook iterates give {e:?}"));
                    } else {
                        bad.push(String::new());
                    }
                }
            }
            if matches!(method, SolveMethod::Full) {
                continue;
            }
            // early termination against prefix runs
            let mut pre = Vec::new();
            for tt in 0..=6u64 {
                let (s, b) = game.solve(SolveMethod::External, tt, 0.0, 1, Some(params)).unwrap();
                pre.push((b.player_regret_bound(One), b.player_regret_bound(Two), named_of(&s)));
            }
            let mut ths = vec![0.0, -1.0, f64::NAN, f64::INFINITY];
            for (b1, b2, _) in pre.iter().skip(1) {
                for v in [*b1, *b2] {
                    ths.push(v);
                    ths.push(f64::from_bits(v.to_bits().wrapping_add(1)));
                }
            }
            for n in 0..=6u64 {
                for &r in &ths {
                    runs += 1;
                    let (s, b) = game.solve(SolveMethod::External, n, r, 1, Some(params)).unwrap();
                    let mut tstar = n;
                    for tt in 1..=n {
                        if f64::max(pre[tt as usize].0, pre[tt as usize].1) < r {
                            tstar = tt;
                            break;
                        }
                    }
                    let e = &pre[tstar as usize];
                    if bits(b.player_regret_bound(One)) != bits(e.0) || bits(b.player_regret_bound(Two)) != bits(e.1) || named_of(&s) != e.2 {
                        if bad.len() < 5 {
                            bad.push(format!("external, only player {who:?} decides, params {pname}, N={n}, r={r:e}: not the result of the prefix run t*={tstar}"));
                        } else {
                            bad.push(String::new());
                        }
                    }
                }
            }
          }
        }
    }
    (runs, bad)
}

/// Game::solve dispatch seen from outside: thread-count overflow error, default parameters, the
/// unsampled method is deterministic on a game with chance nodes (it never reaches a sampling solver),
/// one thread never errors.
fn gs() -> (usize, Vec<String>) {
    let mut bad = Vec::new();
    let mut runs = 0usize;
    for (gname, game) in family(true).into_iter().take(8) {
        runs += 1;
        match game.solve(SolveMethod::Full, 1, 0.0, usize::MAX / 3 + 1, None) {
            Err(cfr::SolveError::ThreadOverflow) => {}
            Err(e) => bad.push(format!("{gname}: 3 x threads overflows but the error is {e:?}")),
            Ok(_) => bad.push(format!("{gname}: 3 x threads overflows but solve returned Ok")),
        }
        for method in [SolveMethod::Full, SolveMethod::Sampled, SolveMethod::External] {
            runs += 1;
            if game.solve(method, 3, 0.0, 1, None).is_err() {
                bad.push(format!("{gname}: {method:?} with one thread returned an error"));
            }
        }
        runs += 1;
        let a = probs_of(&game.solve(SolveMethod::Full, 6, 0.0, 1, None).unwrap().0);
        let b = probs_of(&game.solve(SolveMethod::Full, 6, 0.0, 1, Some(RegretParams::default())).unwrap().0);
        let c = probs_of(&game.solve(SolveMethod::Full, 6, 0.0, 1, Some(RegretParams::dcfr())).unwrap().0);
        if max_diff(&a, &b) > 0.0 || max_diff(&a, &c) > 0.0 {
            bad.push(format!("{gname}: omitted parameters do not behave like the documented default (dcfr)"));
        }
        let d = probs_of(&game.solve(SolveMethod::Full, 6, 0.0, 1, None).unwrap().0);
        if max_diff(&a, &d) > 0.0 {
            bad.push(format!("{gname}: two unsampled solves differ (a sampling solver was reached)"));
        }
        let v = probs_of(&game.solve(SolveMethod::Full, 6, 0.0, 1, Some(RegretParams::vanilla())).unwrap().0);
        let t7 = probs_of(&game.solve(SolveMethod::Full, 7, 0.0, 1, None).unwrap().0);
        if max_diff(&a, &v) == 0.0 && max_diff(&a, &t7) == 0.0 {
            bad.push(format!("{gname}: parameters and budget have no effect"));
        }
    }
    bad.truncate(5);
    (runs, bad)
}

/// C02 as a native sweep: vanilla, unsampled: the returned bound is never below the true regret of the
/// returned strategies, for pseudo-random matrix games (simultaneous moves), every budget 1..=60, 1 and 2
/// threads; and an early stop below a threshold implies the true regret is below it too.
fn bound_dominates() -> (usize, Vec<String>) {
    use cfr::PlayerNum::{One, Two};
    let mut runs = 0;
    let mut bad = Vec::new();
    let rows = ["r0", "r1", "r2", "r3"];
    let cols = ["c0", "c1", "c2", "c3"];
    for seed in 0..40u64 {
        let h = |i: u64| (seed.wrapping_mul(6364136223846793005).wrapping_add(i.wrapping_mul(1442695040888963407)) >> 33) as u64;
        let (nr, nc) = (2 + (h(100) % 3) as usize, 2 + (h(101) % 3) as usize);
        let pay = |i: usize, j: usize| (h((i * 4 + j) as u64) % 11) as f64 - 5.0;
        let build = || -> G {
            Game::from_root(p(One, "row", (0..nr).map(|i| (rows[i], p(Two, "col", (0..nc).map(|j| (cols[j], t(pay(i, j)))).collect()))).collect())).unwrap()
        };
        let game = build();
        for threads in [1usize, 2] {
            for budget in 1..=60u64 {
                runs += 1;
                let (s, b) = game.solve(SolveMethod::Full, budget, 0.0, threads, Some(RegretParams::vanilla())).unwrap();
                let (bound, truth) = (b.regret_bound(), s.get_info().regret());
                if !(bound >= truth - 1e-9) && bad.len() < 6 {
                    bad.push(format!("matrix game seed {seed} ({nr}x{nc}), budget {budget}, {threads} thread(s): bound {bound:.4} < true regret {truth:.4}"));
                }
            }
            for thr in [0.5, 1.0, 1.5] {
                runs += 1;
                let (s, b) = game.solve(SolveMethod::Full, 100_000, thr, threads, Some(RegretParams::vanilla())).unwrap();
                let truth = s.get_info().regret();
                if b.regret_bound() < thr && !(truth < thr + 1e-9) && bad.len() < 6 {
                    bad.push(format!("matrix game seed {seed} ({nr}x{nc}), threshold {thr}, {threads} thread(s): stopped with bound {:.4} but true regret {truth:.4}", b.regret_bound()));
                }
            }
        }
    }
    (runs, bad)
}

/// Sampled solves on a game with chance nodes BELOW the outcomes of another chance node: if draws were
/// kept across passes the solver would keep seeing the same world and lock onto a gamble; with fresh
/// draws every pass the safe action is optimal (gambles are worth -0.5) and the true regret goes to 0.
fn sampled_reset() -> (usize, Vec<String>) {
    use cfr::PlayerNum::One;
    let blind = |a: f64, b: f64| p(One, "blind", vec![("a", t(a)), ("b", t(b)), ("safe", t(0.0))]);
    let mut runs = 0;
    let mut bad = Vec::new();
    for threads in [1usize, 2, 3] {
        for (pname, params) in [("vanilla", RegretParams::vanilla()), ("dcfr", RegretParams::dcfr())] {
            runs += 1;
            let heads = c(Some("after-heads"), vec![(1.0, blind(4.0, -4.0)), (1.0, blind(2.0, -4.0))]);
            let tails = c(Some("after-tails"), vec![(1.0, blind(-4.0, 4.0)), (1.0, blind(-4.0, 2.0))]);
            let game: G = Game::from_root(c(Some("coin"), vec![(1.0, heads), (1.0, tails)])).unwrap();
            let (s, _) = game.solve(SolveMethod::Sampled, 20_000, 0.0, threads, Some(params)).unwrap();
            let r = s.get_info().regret();
            if !(r < 0.25) {
                bad.push(format!("Sampled, {threads} thread(s), {pname}: true regret {r:.3} after 20000 passes (fresh draws every pass give < 0.05; draws kept across passes give 0.5)"));
            }
        }
    }
    (runs, bad)
}

fn main() {
    let args: Vec<String> = std::env::args().collect();
    let which = args.get(1).map(|s| s.as_str()).unwrap_or("");
    if which == "cli16" {
        println!("{}", cli16());
        return;
    }
    let (runs, bad) = match which {
        "c09" => c09(),
        "xdriver" => xdriver(),
        "gs" => gs(),
        "c01" => eval::c01(),
        "c02" => bound_dominates(),
        "c10" => sampled_reset(),
        "c11" => ctor::c11(args.get(2).map(|s| s.as_str()).unwrap_or("")),
        "c06" => threads(&[(SolveMethod::Full, true), (SolveMethod::Full, false)]),
        "c07" => {
            let (r1, mut b1) = threads(&[(SolveMethod::Sampled, false)]);
            let (r2, b2) = sampled_multi();
            b1.extend(b2);
            (r1 + r2, b1)
        }
        _ => {
            eprintln!("usage: verif-replay c09");
            std::process::exit(2);
        }
    };
    let shown: Vec<String> = bad.iter().filter(|s| !s.is_empty()).map(|s| format!("\"{}\"", s.replace('"', "'"))).collect();
    println!("{{\"check\":\"{}\",\"runs\":{},\"violations\":{},\"examples\":[{}]}}", which, runs, bad.len(), shown.join(","));
}
