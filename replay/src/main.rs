//! Native confirmation of solver counterexamples through the crate's PUBLIC API only.
//! This never decides a property; it is run after a solver counterexample to see whether the
//! misbehaviour is observable on the real build. Output: one JSON object on stdout.
use cfr::{Game, GameNode, IntoGameNode, PlayerNum, RegretParams, SolveMethod};

mod games;
use games::*;

fn bits(v: f64) -> u64 {
    v.to_bits()
}

/// C09: thresholded Full solve (1 thread) versus un-thresholded prefixes, thresholds below / at /
/// above every bound value along the run plus special values.
fn c09() -> (usize, Vec<String>) {
    let mut bad = Vec::new();
    let mut runs = 0usize;
    for (gname, game) in small_games() {
        for (pname, params) in [("vanilla", RegretParams::vanilla()), ("dcfr", RegretParams::dcfr())] {
            let nmax = 8u64;
            // prefix runs
            let mut pre = Vec::new();
            for t in 0..=nmax {
                let (s, b) = game.solve(SolveMethod::Full, t, 0.0, 1, Some(params)).unwrap();
                let named = named_of(&s);
                pre.push((b.player_regret_bound(PlayerNum::One), b.player_regret_bound(PlayerNum::Two), named));
            }
            let mut thresholds = vec![0.0, -0.0, -1.0, f64::NAN, f64::INFINITY, f64::NEG_INFINITY, 1e300, f64::MIN_POSITIVE];
            for (b1, b2, _) in pre.iter().skip(1) {
                for v in [*b1, *b2, f64::max(*b1, *b2)] {
                    thresholds.push(v);
                    thresholds.push(f64::from_bits(v.to_bits().wrapping_add(1)));
                    if v > 0.0 {
                        thresholds.push(f64::from_bits(v.to_bits() - 1));
                    }
                }
            }
            for n in 0..=nmax {
                for &r in &thresholds {
                    runs += 1;
                    let (s, b) = game.solve(SolveMethod::Full, n, r, 1, Some(params)).unwrap();
                    let mut tstar = n;
                    for t in 1..=n {
                        let (b1, b2, _) = &pre[t as usize];
                        if f64::max(*b1, *b2) < r {
                            tstar = t;
                            break;
                        }
                    }
                    let (e1, e2, en) = &pre[tstar as usize];
                    let g1 = b.player_regret_bound(PlayerNum::One);
                    let g2 = b.player_regret_bound(PlayerNum::Two);
                    if bits(g1) != bits(*e1) || bits(g2) != bits(*e2) || named_of(&s) != *en {
                        if bad.len() < 5 {
                            bad.push(format!(
                                "game={gname} params={pname} N={n} r={r:e} expected t*={tstar} bounds=({e1:e},{e2:e}) got=({g1:e},{g2:e})"
                            ));
                        } else {
                            bad.push(String::new());
                        }
                    }
                }
            }
        }
    }
    (runs, bad)
}

fn main() {
    let args: Vec<String> = std::env::args().collect();
    let which = args.get(1).map(|s| s.as_str()).unwrap_or("");
    let (runs, bad) = match which {
        "c09" => c09(),
        _ => {
            eprintln!("usage: verif-replay c09");
            std::process::exit(2);
        }
    };
    let shown: Vec<String> = bad.iter().filter(|s| !s.is_empty()).map(|s| format!("\"{}\"", s.replace('"', "'"))).collect();
    println!("{{\"check\":\"{}\",\"runs\":{},\"violations\":{},\"examples\":[{}]}}", which, runs, bad.len(), shown.join(","));
}
