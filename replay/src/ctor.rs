//! Native confirmer for the constructor checks: a family of small trees, each valid or with ONE planted
//! violation of the documented contract (either player, first or later visit, near or distant
//! branches), built through `Game::from_root`; the expected verdict is known by construction.
use crate::games::{c, p, t, N};
use cfr::{Game, GameError, PlayerNum, SolveMethod};

#[derive(Clone, Copy, PartialEq, Debug)]
pub enum Plant {
    None,
    Valid3, // valid: the shared chance infoset has three outcomes with weights (3,2,1) at both visits
    EmptyChance,
    Weight(u8),        // 0: zero, 1: negative, 2: +inf, 3: NaN
    ProbsDiffer(u8),   // 0: different weights, 1: same weights in another order
    EmptyPlayer,
    ActionsDiffer(u8), // 0: order swapped, 1: another name, 2: another count
    Duplicate,
    Recall,
    SingleDiffer,
    ForgetAction(u8), // the player's next infoset is the same after both of its actions (0: directly, 1: behind the opponent)
    MixedArity(u8),   // one label with one action here and two there (0: single first, 1: multi first)
    Payoff(u8),       // a non-finite payoff (0: NaN, 1: +inf, 2: -inf)
}

fn pn(one: bool) -> PlayerNum {
    if one {
        PlayerNum::One
    } else {
        PlayerNum::Two
    }
}

/// `who`: the player the violation is planted for; `late`: plant it at the LAST visit in depth-first
/// order instead of the first; weights of the shared chance infoset differ by a factor between visits
/// (valid: only the normalised probabilities have to agree)
pub fn tree(plant: Plant, who: bool, late: bool) -> N {
    let other = !who;
    match plant {
        Plant::ForgetAction(k) => {
            let again = |v: f64| -> N {
                let n = p(pn(who), "again", vec![("u", t(v)), ("d", t(-v))]);
                if k == 0 {
                    n
                } else {
                    p(pn(other), "mid", vec![("m", n), ("n", t(0.0))])
                }
            };
            let body = p(pn(who), "top", vec![("x", again(1.0)), ("y", again(2.0))]);
            return if late { p(pn(other), "pre", vec![("s", t(0.0)), ("g", body)]) } else { body };
        }
        Plant::Payoff(k) => {
            let bad = t([f64::NAN, f64::INFINITY, f64::NEG_INFINITY][k as usize]);
            let body = p(pn(who), "m", vec![("a", t(1.0)), ("b", bad)]);
            return if late { c(None, vec![(1.0, t(0.0)), (1.0, p(pn(other), "pre", vec![("s", t(0.0)), ("g", body)]))]) } else { body };
        }
        Plant::MixedArity(k) => {
            let one = p(pn(who), "L", vec![("a", t(1.0))]);
            let two = p(pn(who), "L", vec![("a", t(1.0)), ("b", t(2.0))]);
            let (l, r) = if k == 0 { (one, two) } else { (two, one) };
            let body = p(pn(other), "r", vec![("k", l), ("j", r)]);
            return if late { c(None, vec![(1.0, t(0.0)), (1.0, body)]) } else { body };
        }
        _ => {}
    }
    let leaf_block = |tag: &str, hit: bool, v: f64| -> N {
        // `who` moves at infoset "w<tag>" (its previous infoset is "top"), then chance "cz", then `other` at "o"
        let hit_here = hit;
        let mut ws = if tag == "x" { vec![1.0, 3.0] } else { vec![2.0, 6.0] };
        if hit_here {
            match plant {
                Plant::Weight(0) => ws[1] = 0.0,
                Plant::Weight(1) => ws[0] = -1.0,
                Plant::Weight(2) => ws[1] = f64::INFINITY,
                Plant::Weight(3) => ws[0] = f64::NAN,
                Plant::ProbsDiffer(0) => ws = vec![1.0, 2.0],
                Plant::ProbsDiffer(1) => ws = vec![3.0, 1.0],
                _ => {}
            }
        }
        let o_acts: Vec<(&str, N)> = match (hit_here, plant) {
            (true, Plant::EmptyPlayer) => vec![],
            (true, Plant::ActionsDiffer(0)) => vec![("r", t(v + 1.0)), ("l", t(v))],
            (true, Plant::ActionsDiffer(1)) => vec![("l", t(v)), ("q", t(v + 1.0))],
            (true, Plant::ActionsDiffer(2)) => vec![("l", t(v)), ("r", t(v + 1.0)), ("m", t(v - 1.0))],
            (true, Plant::Duplicate) => vec![("l", t(v)), ("l", t(v + 1.0))],
            _ => vec![("l", t(v)), ("r", t(v + 1.0))],
        };
        let o_label = if hit_here && plant == Plant::Duplicate { "dup" } else { "o" };
        let o_node = |vv: f64| -> N {
            let acts: Vec<(&str, N)> = o_acts.iter().map(|(a, _)| (*a, t(vv))).collect();
            p(pn(other), o_label, acts)
        };
        let single_act = if hit_here && plant == Plant::SingleDiffer { "other" } else { "only" };
        let chance = if hit_here && plant == Plant::EmptyChance {
            c(Some("cz"), vec![])
        } else if plant == Plant::Valid3 {
            c(Some("cz"), vec![(3.0, o_node(v)), (2.0, p(pn(who), "single", vec![(single_act, o_node(-v))])), (1.0, o_node(v + 2.0))])
        } else {
            c(Some("cz"), vec![(ws[0], o_node(v)), (ws[1], p(pn(who), "single", vec![(single_act, o_node(-v))]))])
        };
        // the deeper infoset of `who`: label depends on its own earlier action unless a recall violation is planted
        let deep_label = if plant == Plant::Recall { "deep".to_string() } else { format!("deep{tag}") };
        p(pn(who), &format!("w{tag}"), vec![("a", chance), ("b", p(pn(who), &deep_label, vec![("u", t(v)), ("d", t(-v))]))])
    };
    let first = !late;
    // `who` moves at "top", then `other` at "top2" (not seeing that move), then the block
    let left = leaf_block("x", first, 1.0);
    let right = leaf_block("y", late, 2.0);
    // after the shared chance infoset "cz" has been revisited, two NEW chance infosets are registered (one
    // anonymous, one labelled): the indices handed out must still be dense
    let late = c(None, vec![(1.0, c(Some("late"), vec![(1.0, t(1.0)), (2.0, t(-1.0))])), (1.0, t(0.0))]);
    p(pn(who), "top", vec![("x", p(pn(other), "top2", vec![("k", left), ("j", t(0.5))])), ("y", p(pn(other), "top2", vec![("k", right), ("j", t(-0.5))])), ("z", late)])
}

fn expected(plant: Plant) -> Option<&'static str> {
    Some(match plant {
        Plant::None | Plant::Valid3 => return None,
        Plant::EmptyChance => "EmptyChance",
        Plant::Weight(_) => "NonPositiveChance",
        Plant::ProbsDiffer(_) => "ProbabilitiesNotEqual",
        Plant::EmptyPlayer => "EmptyPlayer",
        Plant::ActionsDiffer(_) | Plant::SingleDiffer | Plant::MixedArity(_) => "ActionsNotEqual",
        Plant::Duplicate => "ActionsNotUnique",
        Plant::Recall | Plant::ForgetAction(_) => "ImperfectRecall",
        Plant::Payoff(_) => "*", // the documented error kinds have no name for it: any rejection
    })
}

fn name(e: &GameError) -> &'static str {
    match e {
        GameError::EmptyChance => "EmptyChance",
        GameError::NonPositiveChance => "NonPositiveChance",
        GameError::ProbabilitiesNotEqual => "ProbabilitiesNotEqual",
        GameError::ImperfectRecall => "ImperfectRecall",
        GameError::EmptyPlayer => "EmptyPlayer",
        GameError::ActionsNotEqual => "ActionsNotEqual",
        GameError::ActionsNotUnique => "ActionsNotUnique",
        #[allow(unreachable_patterns)]
        _ => "other",
    }
}

/// `group`: "table" (per-node rules), "recall-action", "one-table", "payoff", or "" for all
pub fn c11(group: &str) -> (usize, Vec<String>) {
    let mut plants = Vec::new();
    if group.is_empty() || group == "table" {
        plants.extend([Plant::None, Plant::Valid3, Plant::EmptyChance, Plant::EmptyPlayer, Plant::Duplicate, Plant::Recall, Plant::SingleDiffer]);
        for k in 0..4 {
            plants.push(Plant::Weight(k));
        }
        for k in 0..2 {
            plants.push(Plant::ProbsDiffer(k));
        }
        for k in 0..3 {
            plants.push(Plant::ActionsDiffer(k));
        }
    }
    if group.is_empty() || group == "recall-action" {
        plants.extend([Plant::None, Plant::ForgetAction(0), Plant::ForgetAction(1)]);
    }
    if group.is_empty() || group == "payoff" {
        plants.extend([Plant::None, Plant::Payoff(0), Plant::Payoff(1), Plant::Payoff(2)]);
    }
    if group.is_empty() || group == "one-table" {
        plants.extend([Plant::None, Plant::MixedArity(0), Plant::MixedArity(1)]);
    }
    let mut runs = 0;
    let mut bad = Vec::new();
    for &pl in &plants {
        for who in [true, false] {
            for late in [false, true] {
                // rules that compare two visits need the late visit to differ from the early one
                if !late && matches!(pl, Plant::ProbsDiffer(_) | Plant::ActionsDiffer(_) | Plant::SingleDiffer) {
                    continue;
                }
                runs += 1;
                let res = std::panic::catch_unwind(|| Game::from_root(tree(pl, who, late)));
                let what = format!("{pl:?} planted for player {} at the {} visit", if who { "one" } else { "two" }, if late { "last" } else { "first" });
                match (res, expected(pl)) {
                    (Err(_), _) => bad.push(format!("from_root panicked: {what}")),
                    (Ok(Ok(game)), None) => {
                        let r = std::panic::catch_unwind(|| game.solve(SolveMethod::Full, 3, 0.0, 1, None).map(|_| ()));
                        if !matches!(r, Ok(Ok(()))) {
                            bad.push(format!("a valid tree was accepted but cannot be solved: {what}"));
                        }
                    }
                    (Ok(Err(e)), None) => bad.push(format!("a valid tree was rejected with {}: {what}", name(&e))),
                    (Ok(Ok(_)), Some(k)) => bad.push(format!("a tree violating {} was accepted: {what}", if k == "*" { "the finite-payoff rule" } else { k })),
                    (Ok(Err(e)), Some(k)) => {
                        if k != "*" && name(&e) != k {
                            bad.push(format!("a tree violating only {k} was rejected with {}: {what}", name(&e)));
                        }
                    }
                }
            }
        }
    }
    bad.truncate(6);
    (runs, bad)
}
