//! Native confirmer for the evaluator checks (C01): utility and regrets reported by
//! `Strategies::get_info` against an independent evaluation (expected value by recursion on the spec
//! tree, best response by enumerating every pure strategy of the deviating player).
use crate::games::{c, p, t, N};
use cfr::{Game, PlayerNum};
use std::collections::BTreeMap;

#[derive(Clone)]
pub enum S {
    T(f64),
    C(Vec<(f64, S)>),
    P(bool, String, Vec<(String, S)>), // player one?, infoset, actions
}

fn to_n(s: &S) -> N {
    match s {
        S::T(v) => t(*v),
        S::C(o) => c(None, o.iter().map(|(w, k)| (*w, to_n(k))).collect()),
        S::P(one, i, a) => p(if *one { PlayerNum::One } else { PlayerNum::Two }, i, a.iter().map(|(n, k)| (n.as_str(), to_n(k))).collect()),
    }
}

type Strat = BTreeMap<String, Vec<f64>>; // infoset -> probability per action (in node order)

fn value(s: &S, st: [&Strat; 2]) -> f64 {
    match s {
        S::T(v) => *v,
        S::C(o) => {
            let tot: f64 = o.iter().map(|(w, _)| w).sum();
            o.iter().map(|(w, k)| w / tot * value(k, st)).sum()
        }
        S::P(one, i, a) => {
            let pr = &st[if *one { 0 } else { 1 }][i];
            a.iter().zip(pr.iter()).map(|((_, k), q)| if *q > 0.0 { q * value(k, st) } else { 0.0 }).sum()
        }
    }
}

fn infosets(s: &S, one: bool, out: &mut BTreeMap<String, usize>) {
    match s {
        S::T(_) => {}
        S::C(o) => o.iter().for_each(|(_, k)| infosets(k, one, out)),
        S::P(w, i, a) => {
            if *w == one {
                out.insert(i.clone(), a.len());
            }
            a.iter().for_each(|(_, k)| infosets(k, one, out));
        }
    }
}

/// best-response value (in the deviator's own utility) by enumeration of pure strategies
fn best_response(s: &S, st: [&Strat; 2], one: bool) -> f64 {
    let mut infos = BTreeMap::new();
    infosets(s, one, &mut infos);
    let names: Vec<(String, usize)> = infos.into_iter().collect();
    let mut choice = vec![0usize; names.len()];
    let mut best = f64::NEG_INFINITY;
    loop {
        let pure: Strat = names.iter().zip(choice.iter()).map(|((n, k), ch)| (n.clone(), (0..*k).map(|j| if j == *ch { 1.0 } else { 0.0 }).collect())).collect();
        let v = if one { value(s, [&pure, st[1]]) } else { -value(s, [st[0], &pure]) };
        if v > best {
            best = v;
        }
        let mut i = 0;
        loop {
            if i == names.len() {
                return best;
            }
            choice[i] += 1;
            if choice[i] < names[i].1 {
                break;
            }
            choice[i] = 0;
            i += 1;
        }
    }
}

fn pay(a: usize, b: usize, c_: usize, d: usize) -> f64 {
    (((a * 7 + b * 5 + c_ * 3 + d * 11 + a * b * 2 + c_ * d) % 13) as f64) - 6.0
}

fn games() -> Vec<(&'static str, S)> {
    let l = |n: &str| n.to_string();
    // G1: chance, then player one (not seeing chance), then player two (seeing nothing): infosets span
    // chance outcomes of different probability
    let g1 = S::C((0..2).map(|ch| {
        (if ch == 0 { 1.0 } else { 3.0 }, S::P(true, l("a"), (0..2).map(|x| {
            (l(["l", "r"][x]), S::P(false, l("b"), (0..3).map(|y| (l(["l", "m", "r"][y]), S::T(pay(ch, x, y, 0)))).collect()))
        }).collect()))
    }).collect());
    // G2: player one, chance (2,1,1), player two (seeing chance only), player one again (remembering own move only)
    let g2 = S::P(true, l("top"), (0..2).map(|x| {
        (l(["x", "y"][x]), S::C((0..3).map(|ch| {
            ([2.0, 1.0, 1.0][ch], S::P(false, format!("s{ch}"), (0..2).map(|y| {
                (l(["u", "d"][y]), if ch == 2 && y == 1 { S::T(pay(x, ch, y, 3)) } else {
                    S::P(true, format!("after_{x}"), (0..2).map(|z| (l(["p", "q"][z]), S::T(pay(x, ch, y, z)))).collect())
                })
            }).collect()))
        }).collect()))
    }).collect());
    // G3: a single-action node and a single-outcome chance node on the way (both collapse)
    let g3 = S::P(false, l("first"), vec![
        (l("a"), S::C(vec![(5.0, S::P(true, l("only"), vec![(l("go"), S::P(true, l("m"), vec![(l("l"), S::T(2.0)), (l("r"), S::T(-1.0))]))]))])),
        (l("b"), S::P(true, l("m2"), vec![(l("l"), S::T(-3.0)), (l("r"), S::T(4.0))])),
    ]);
    // G4 / G5: the mover has a 3-action infoset and, later, a 2-action infoset whose values are all
    // negative in the mover's own utility (once with player one as the mover, once with player two)
    let uneven = |one: bool| -> S {
        let sg = if one { 1.0 } else { -1.0 };
        S::P(one, l("r"), vec![
            (l("x"), S::P(!one, l("q"), vec![
                (l("l"), S::P(one, l("s"), vec![(l("u"), S::T(-1.0 * sg)), (l("d"), S::T(-2.0 * sg))])),
                (l("r"), S::T(-4.0 * sg)),
            ])),
            (l("y"), S::T(-5.0 * sg)),
            (l("z"), S::T(-3.0 * sg)),
        ])
    };
    // G8 / G9: a single-action node of the mover between two of its decisions, and a sibling decision
    // that is linked normally (the order in which infosets are resolved depends on the recorded parents)
    let forced = |one: bool| -> S {
        let sg = if one { 1.0 } else { -1.0 };
        let left = S::P(one, l("left"), vec![
            (l("x"), S::P(!one, l("resp"), vec![(l("u"), S::T(1.0 * sg)), (l("v"), S::T(4.0 * sg))])),
            (l("y"), S::T(3.0 * sg)),
        ]);
        S::P(one, l("root"), vec![
            (l("a"), S::P(one, l("forced"), vec![(l("go"), left)])),
            (l("b"), S::P(one, l("right"), vec![(l("x"), S::T(2.0 * sg)), (l("y"), S::T(0.0))])),
        ])
    };
    // G6 / G7: the best response runs through an opponent node one of whose actions may have probability
    // exactly 0 and leads to an otherwise unreachable infoset of the deviating player
    let hidden = |one: bool| -> S {
        let sg = if one { 1.0 } else { -1.0 };
        S::P(one, l("A"), vec![
            (l("L"), S::T(0.0)),
            (l("M"), S::T(1.0 * sg)),
            (l("R"), S::P(!one, l("X"), vec![(l("l"), S::T(5.0 * sg)), (l("r"), S::P(one, l("B"), vec![(l("a"), S::T(0.0)), (l("b"), S::T(1.0 * sg))]))])),
        ])
    };
    vec![("chance-then-hidden-moves", g1), ("sequential-with-chance", g2), ("degenerate-nodes", g3), ("uneven-action-counts-one", uneven(true)), ("uneven-action-counts-two", uneven(false)),
         ("unreachable-infoset-one", hidden(true)), ("unreachable-infoset-two", hidden(false)),
         ("forced-move-between-own-decisions-one", forced(true)), ("forced-move-between-own-decisions-two", forced(false))]
}

fn profile(s: &S, one: bool, k: u64) -> Strat {
    let mut infos = BTreeMap::new();
    infosets(s, one, &mut infos);
    let mut out = Strat::new();
    for (j, (n, cnt)) in infos.into_iter().enumerate() {
        let h = (k.wrapping_mul(2654435761).wrapping_add(j as u64 * 40503)) >> 3;
        if k >= 40 {
            // pure profiles: infoset j plays action ((k - 40) / 3^j) mod its action count
            let ch = (((k - 40) / 3u64.pow(j as u32)) % cnt as u64) as usize;
            out.insert(n, (0..cnt).map(|a| if a == ch { 1.0 } else { 0.0 }).collect());
            continue;
        }
        let mut w: Vec<f64> = (0..cnt).map(|a| ((h >> (3 * a)) % 4) as f64).collect();
        if w.iter().sum::<f64>() == 0.0 {
            w[(h % cnt as u64) as usize] = 1.0; // pure
        }
        let tot: f64 = w.iter().sum();
        out.insert(n, w.into_iter().map(|x| x / tot).collect());
    }
    out
}

fn action_names(s: &S, out: &mut BTreeMap<(bool, String), Vec<String>>) {
    match s {
        S::T(_) => {}
        S::C(o) => o.iter().for_each(|(_, k)| action_names(k, out)),
        S::P(w, i, a) => {
            out.insert((*w, i.clone()), a.iter().map(|(n, _)| n.clone()).collect());
            a.iter().for_each(|(_, k)| action_names(k, out));
        }
    }
}

pub fn c01() -> (usize, Vec<String>) {
    let mut runs = 0;
    let mut bad = Vec::new();
    for (gname, g) in games() {
        let game: Game<String, String> = match Game::from_root(to_n(&g)) {
            Ok(x) => x,
            Err(e) => {
                bad.push(format!("{gname}: rejected by from_root: {e:?}"));
                continue;
            }
        };
        let mut names = BTreeMap::new();
        action_names(&g, &mut names);
        for k in 0..67u64 {
            runs += 1;
            let s1 = profile(&g, true, k);
            let s2 = profile(&g, false, if k >= 40 { 40 + (k - 40) / 9 } else { k * 7 + 3 });
            let named = |one: bool, st: &Strat| -> Vec<(String, Vec<(String, f64)>)> {
                st.iter().map(|(i, pr)| (i.clone(), names[&(one, i.clone())].iter().cloned().zip(pr.iter().cloned()).collect())).collect()
            };
            let strat = match game.from_named([named(true, &s1), named(false, &s2)]) {
                Ok(x) => x,
                Err(e) => {
                    bad.push(format!("{gname} profile {k}: from_named failed: {e:?}"));
                    continue;
                }
            };
            let info = strat.get_info();
            let u = value(&g, [&s1, &s2]);
            let b1 = best_response(&g, [&s1, &s2], true);
            let b2 = best_response(&g, [&s1, &s2], false);
            let (r1, r2) = ((b1 - u).max(0.0), (b2 + u).max(0.0));
            let close = |a: f64, b: f64| (a - b).abs() <= 1e-9 * (1.0 + a.abs() + b.abs());
            let mut what = Vec::new();
            if !close(info.player_utility(PlayerNum::One), u) || !close(info.player_utility(PlayerNum::Two), -u) {
                what.push(format!("utility {} (independent evaluation {u})", info.player_utility(PlayerNum::One)));
            }
            if !close(info.player_regret(PlayerNum::One), r1) {
                what.push(format!("player one's regret {} (enumeration of pure strategies {r1})", info.player_regret(PlayerNum::One)));
            }
            if !close(info.player_regret(PlayerNum::Two), r2) {
                what.push(format!("player two's regret {} (enumeration of pure strategies {r2})", info.player_regret(PlayerNum::Two)));
            }
            if !close(info.regret(), r1.max(r2)) {
                what.push(format!("total regret {} (expected {})", info.regret(), r1.max(r2)));
            }
            if !what.is_empty() && bad.len() < 6 {
                bad.push(format!("{gname} profile {k}: {}", what.join("; ")));
            }
        }
    }
    (runs, bad)
}
