#!/bin/bash
# run every registered check (tier = $1, default quick) sequentially; summary on stdout
T=${1:-quick}
cd /verif
for p in $(python3 -c "import json;print(' '.join(c['property_id'] for c in json.load(open('MANIFEST.json'))['checks']))"); do
  s=$(date +%s)
  ./check $p --tier $T > .work/out/all-$p-$T.txt 2>&1; rc=$?
  echo "$p exit=$rc $(( $(date +%s) - s ))s :: $(tail -1 .work/out/all-$p-$T.txt | cut -c1-160)"
done
