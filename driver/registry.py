"""Which harnesses / queries decide which property. Kept next to the driver so that evidence can
describe every unit (functions encoded, bounds, stubs, assumptions)."""
from kani_engine import Harness as H

REGISTRY = {}

LIB = "verif_kani"

REGISTRY["C18"] = {
    "level": "model_checking",
    "explanation": "Bounded model checking (Kani/CBMC, CaDiCaL) of the compiled Strategies::truncate on directly "
                   "constructed Game/Strategies values; inputs are symbolic floats, the solver decides every assertion "
                   "for all values within the bounds.",
    "assumptions": ["Kani's MIR->GOTO translation and CBMC's IEEE-754 bit-blasting are trusted",
                    "game tables are built directly (private fields); truncate reads only the per-infoset action counts"],
    "harnesses": [
        H("c18_truncate_valid_full", f"{LIB}::c18", "quick",
          functions=["Strategies::truncate", "split::split_by_mut"],
          bounds="2 infosets x 2 actions; probabilities (a,1-a),(b,1-b) with a,b any f64 in [0,1]; threshold any non-NaN f64 incl. +-inf; unwind 4",
          role="always a distribution afterwards; support == positive actions above the threshold when one exists"),
        H("c18_truncate_values_dyadic", f"{LIB}::c18", "quick",
          functions=["Strategies::truncate", "split::split_by_mut"],
          bounds="player one: 1 infoset x 3 actions with p=k/16 summing to 1; player two: 2 actions m/8; threshold j/32, j in -1..=33; unwind 5",
          role="survivors rescaled to p_i/sum(survivors) (1e-9), sums to one, low threshold is identity, idempotent, both players"),
    ],
}

# ---------------------------------------------------------------------------------------------
# MANIFEST texts
MANIFEST_TEXT = {
    "C18": {
        "engine": "kani",
        "technique": "bounded model checking (Kani/CBMC SAT) of the compiled Strategies::truncate over symbolic floats",
        "text": "For every f64 threshold (incl. +-inf, negative) and every profile within the bounds (2-action infosets over all of [0,1]; 3-action infosets on the k/16 grid) the solver shows the result is a distribution, its support is exactly the actions above the threshold, survivors are rescaled proportionally, a low threshold is the identity and truncation is idempotent. Bounded, not a proof: infoset sizes <= 3, rescaling values only on the dyadic grid.",
        "note": "Trusted: Kani's MIR->GOTO translation, CBMC float bit-blasting, CaDiCaL. Game tables are built directly through private fields (truncate reads only action counts). 'Sums to one' for arbitrary non-dyadic floats is outside the claim.",
    },
}

_PENDING = "no check built (see DESIGN.md)"
NOT_APPLICABLE = {
    "C03": "asymptotic convergence rate over unbounded float trajectories: needs whole multi-iteration solve runs (one iteration of the trivial game is a 23M-variable formula) and an induction over T; proof-assistant territory, not bounded solving (DESIGN.md C03)",
    "C04": "probabilistic statement over thousands of iterations; with draws symbolic the solver quantifies over adversarial draw sequences, for which the statement is false by design (DESIGN.md C04)",
}
for _p in [f"C{i:02d}" for i in range(1, 20)]:
    if _p not in REGISTRY and _p not in NOT_APPLICABLE:
        NOT_APPLICABLE[_p] = _PENDING

_POW = ("f64::powf -> grid model: uninterpreted function on {0,1/4,1/2,3/4,1} constrained by the contract of x^p "
        "(0->0, 1->1, strictly increasing, in (0,1), <= x for p>=1, >= x for p<=1)")
REGISTRY["C19"] = {
    "level": "model_checking",
    "explanation": "Bounded model checking of the compiled Strategies::distance; profiles on the quarter grid, exponent symbolic "
                   "in [2^-10, 64]; libm powf is replaced by an uninterpreted function constrained by its contract.",
    "assumptions": ["powf satisfies the stated contract on the grid for p in [2^-10, 64] (true for IEEE libm: no underflow/rounding to 0 or 1 in that range)",
                    "Kani/CBMC trusted; games built directly through private fields"],
    "harnesses": [
        H("c19_distance_2x2_p_ge_1", f"{LIB}::c19", "quick", functions=["Strategies::distance"], stubs=[_POW], playback=True,
          bounds="one 2-action infoset per player, probabilities k/4, p any f64 in [1,64]; unwind 5",
          role="not NaN, in [0,1], bitwise symmetric, zero iff profiles equal"),
        H("c19_distance_2x2_p_lt_1", f"{LIB}::c19", "quick", functions=["Strategies::distance"], stubs=[_POW], playback=True,
          bounds="as above, p any f64 in [2^-10,1)", role="not NaN, >= 0, symmetric, zero iff equal (upper bound checked separately)"),
        H("c19_distance_2x2_p_lt_1_upper_bound", f"{LIB}::c19", "quick", functions=["Strategies::distance"], stubs=[_POW], playback=True,
          bounds="as above, p any f64 in [2^-10,1)", role="distance <= 1 for exponents below one"),
        H("c19_distance_3x2_p_lt_1_upper_bound", f"{LIB}::c19", "quick", functions=["Strategies::distance"], stubs=[_POW], playback=True,
          bounds="player one 3 actions k/4, player two 2 actions; p any f64 in [2^-10,1)", role="distance <= 1 for exponents below one (recorded known finding)"),
        H("c19_distance_player_without_decisions", f"{LIB}::c19", "quick", functions=["Strategies::distance"], stubs=[_POW], playback=True,
          bounds="player two has only a single-action infoset; player one 2 actions k/4; p in [2^-10,64]",
          role="player without multi-action infoset: distance is 0, never NaN"),
        H("c19_panics_on_bad_exponent", f"{LIB}::c19", "quick", functions=["Strategies::distance"], expect_fail=["*"],
          bounds="p any f64 with !(p > 0): negative, zero, -0, NaN, -inf", role="documented panic fires for every non-positive exponent"),
        H("c19_panics_on_different_games", f"{LIB}::c19", "quick", functions=["Strategies::distance", "Game::eq"], expect_fail=["*"],
          bounds="two structurally identical games at different addresses", role="documented panic fires for profiles of different games"),
        H("c19_distance_3x2_symmetry_square", f"{LIB}::c19", "quick", functions=["Strategies::distance"], stubs=["f64::powf -> x^2 on the grid {0,1/4,1/2,3/4,1}; exponent fixed to 2"], playback=True,
          bounds="player one 3 actions k/4 (all pairs of profiles), player two 2 actions", role="bitwise symmetric; zero iff equal (3-action infoset)"),
        H("c19_distance_3x2_symmetry", f"{LIB}::c19", "thorough", functions=["Strategies::distance"], stubs=[_POW], playback=True,
          bounds="player one 3 actions k/4, player two 2 actions; p any f64 in [2^-10,64]; powf by contract", role="bitwise symmetric; zero iff equal (3-action infoset, every exponent)"),
        H("c19_distance_3x2_p_ge_1", f"{LIB}::c19", "thorough", functions=["Strategies::distance"], stubs=[_POW], playback=True,
          bounds="player one 3 actions k/4, player two 2 actions; p in [1,64]", role="all assertions, 3-action infoset"),
        H("c19_distance_3x2_p_lt_1", f"{LIB}::c19", "thorough", functions=["Strategies::distance"], stubs=[_POW], playback=True,
          bounds="player one 3 actions k/4, player two 2 actions; p in [2^-10,1)", role="all but the upper bound, 3-action infoset"),
    ],
}
MANIFEST_TEXT["C19"] = {
    "engine": "kani",
    "technique": "bounded model checking (Kani/CBMC SAT) of the compiled Strategies::distance; powf abstracted by contract",
    "text": "The solver decides, for all quarter-grid profile pairs and all exponents in [2^-10,64] at once, that distance never returns NaN, stays in [0,1] (p>=1), is bitwise symmetric, is zero exactly for equal profiles, is 0 for a player without decisions, and that both documented panics fire for every non-positive/NaN exponent and for different games. Bounded: <= 3 actions, quarter grid.",
    "note": "powf is an uninterpreted function under its contract (stated in the evidence); CBMC/Kani trusted. The upper bound for exponents below one is a recorded known finding (documented as 'only a valid distance if p >= 1').",
}

REGISTRY["C13"] = {
    "level": "model_checking",
    "explanation": "Bounded model checking of NamedStrategyIter / NamedStrategyActionIter (next and size_hint), as_named and the "
                   "from_named_eq round trip on directly constructed tables; shapes and zero patterns symbolic.",
    "assumptions": ["Kani/CBMC trusted; tables built directly (the iterators read only tables and probabilities)"],
    "harnesses": [
        H("c13_infoset_iter_len_and_order", f"{LIB}::c13", "quick",
          functions=["NamedStrategyIter::{new,next,size_hint}"],
          bounds="multi-action infosets: any contiguous sub-list of [2 actions, 3 actions]; 0..2 single-action infosets; unwind 6",
          role="advertised exact number of infosets == infosets still to come at every prefix; table order, multi first, each once"),
        H("c13_action_iter_len_and_items", f"{LIB}::c13", "quick",
          functions=["NamedStrategyIter::next", "NamedStrategyActionIter::{next,size_hint}"],
          bounds="infosets with 2 and 3 actions, either one inspected; 5 probabilities any f64 in [0,1] (every zero pattern); unwind 6",
          role="advertised exact number of actions == actions still to come at every prefix; exactly the positive actions, in order, bit-identical probabilities of this infoset"),
        H("c13_single_action_items", f"{LIB}::c13", "quick",
          functions=["NamedStrategyIter::next", "NamedStrategyActionIter::{next,size_hint}"],
          bounds="two single-action infosets, either one inspected", role="single-action infoset listed with its only action at probability one; lengths 1 then 0"),
        H("c13_round_trip_from_named_eq", f"{LIB}::c13", "quick",
          functions=["Strategies::as_named", "Game::from_named_eq", "Game::strat_into_box_slow", "NamedStrategyIter::next", "NamedStrategyActionIter::next"],
          bounds="player one: one 2-action infoset + 1 single-action infoset; player two: one 2-action infoset; probabilities k/4; unwind 4",
          role="from_named_eq(as_named(s)) == s bitwise; as_named pairs each player's tables with that player's probabilities"),
    ],
}
MANIFEST_TEXT["C13"] = {
    "engine": "kani",
    "technique": "bounded model checking (Kani/CBMC SAT) of the compiled named-view iterators and import round trip",
    "text": "For every table shape within the bounds and every zero pattern of the probabilities the solver shows that the ExactSizeIterator lengths equal the number of items subsequently yielded at every prefix, that every infoset appears exactly once in order with exactly its positive-probability actions (bit-identical probabilities; single-action infosets at 1.0), and that importing the view returns the same profile. Bounded: <= 2 multi-action + 2 single-action infosets per player, <= 3 actions.",
    "note": "Kani/CBMC trusted. from_named (hash-based) is covered under C14 via the map model; solver output / truncated profiles are covered as 'any probabilities in [0,1]'.",
}

# ---------------------------------------------------------------------------------------------
DATA = "solve::data::verif_kani"
_EXP = ("f64::exp -> contract model: deterministic uninterpreted function; exp(0)=1, [0,1] below 0, >=1 above, monotone, "
        "finite up to 709, +inf from 710, 0 below -746, positive above -700")
_POWREC = "f64::powf -> records (base, exponent) and returns one fixed weight q/8 in (0,1]"

K_CUM = [
    H("c02_cum_regret_structure_full", f"{DATA}::kernels", "quick", functions=["RegretParams::cum_regret"],
      bounds="3 regrets any non-NaN f64 (incl. +-inf), iteration any u64 >= 1",
      role="per-infoset bound is never NaN/negative, is 0 iff no positive regret (positive when some regret >= 1e-200, t < 2^40)"),
    H("c02_cum_regret_value_ints", f"{DATA}::kernels", "quick", functions=["RegretParams::cum_regret"],
      bounds="3 (and 2) regrets integers in [-8,8], iteration 1..=100", role="per-infoset bound == 2*max(R,0)/t (1e-12)"),
]
K_DISCOUNT = [
    H("c08_gen_discount_special", f"{DATA}::kernels", "quick", functions=["RegretParams::gen_discount"],
      bounds="iteration any u64; exponents -inf, 0, -0, +inf", role="discount factor exactly 0, 1/2, 1"),
    H("c08_discount_regret_special", f"{DATA}::kernels", "quick", functions=["RegretParams::discount_cum_regret", "RegretParams::gen_discount"],
      bounds="3 regrets any finite f64; (alpha,beta) in {-inf,0,+inf}^2; iteration any u64",
      role="positive regrets scaled by the alpha factor, negative by the beta factor, zeros untouched"),
    H("c08_discount_average_strat", f"{DATA}::kernels", "quick", functions=["RegretParams::discount_average_strat"], stubs=[_POWREC], playback=True,
      bounds="gamma any finite f64 >= 0; iteration 1..=64; 2 entries k/4 in [0,4]",
      role="gamma 0 is the identity; gamma > 0 scales every entry by the same (t/(t+1))^gamma (base and exponent of the powf call checked)"),
    H("c08_presets", f"{DATA}::kernels", "quick", functions=["RegretParams::{vanilla,lcfr,cfr_plus,dcfr,dcfr_prune,default}"],
      bounds="constants", role="presets and Default equal the documented tuples"),
    H("c05_params_new_accepts", f"{DATA}::kernels", "quick", functions=["RegretParams::new"],
      bounds="all f64 4-tuples satisfying the documented precondition", role="constructor accepts and stores (alpha,beta,gamma,weight)"),
]
K_MATCH = [
    H("c08_regret_match_positive_ints", f"{DATA}::rmatch", "quick", functions=["RegretParams::regret_match::<[f64; 3]>"],
      bounds="3 integer regrets in [-8,8], some positive; fallback weight in {+inf,-inf,0,1}", role="strategy == R+/sum(R+) (1e-12); regrets untouched"),
    H("c08_regret_match_positive_ints_atomic", f"{DATA}::rmatch", "quick", functions=["RegretParams::regret_match::<[AtomicF64]>"],
      bounds="2 integer regrets in [-8,8], some positive", role="same on the atomic accumulators of the multi-threaded solvers"),
    H("c05_regret_match_fallback_full", f"{DATA}::rmatch", "quick", functions=["RegretParams::regret_match::<[f64; 3]>"],
      bounds="3 regrets any f64 in [-1e300,0] (ties, -0.0); weight in {+inf,-inf,0}",
      role="no panic in partial_cmp().unwrap(); indicator of a best / worst action, or uniform"),
    H("c05_regret_match_softmax", f"{DATA}::rmatch", "quick", functions=["RegretParams::regret_match::<[f64; 2]>"], stubs=[_EXP], playback=True,
      bounds="2 non-positive integer regrets >= -8; weight in +-{1/4,1,100,1000}", role="softmax fallback: no NaN, entries in [0,1], some positive"),
    H("c08_regret_match_softmax_order", f"{DATA}::rmatch", "quick", functions=["RegretParams::regret_match::<[f64; 2]>"], stubs=[_EXP], playback=True,
      bounds="as above", role="softmax probabilities ordered like weight*regret; equal regrets equal probabilities"),
    H("c05_regret_match_positive_full2", f"{DATA}::rmatch", "quick", functions=["RegretParams::regret_match::<[f64; 2]>"],
      bounds="2 regrets any f64 in [-1e300,1e300], some positive", role="entries in [0,1], no NaN, zero for non-positive regret, some positive entry"),
]
K_AVG = [
    H("c05_avg_strat_extremes3", f"{DATA}::kernels", "quick", functions=["avg_strat"],
      bounds="3 entries from {0,5e-324,1e-300,0.1,1,3,1e300}", role="normalised average strategy is a distribution; uniform when nothing accumulated"),
    H("c05_avg_strat_values", f"{DATA}::kernels", "quick", functions=["avg_strat"],
      bounds="3 entries k/4, k in 0..=8", role="entry == c_i/sum and total one (1e-12)"),
    H("c05_avg_strat_full", f"{DATA}::kernels", "thorough", functions=["avg_strat"],
      bounds="2 entries any f64 in [0,1e300]", role="entries in [0,1], some positive, uniform when nothing accumulated"),
]
K_GD = [
    H("c05_gen_discount_finite_total", f"{DATA}::kernels", "quick", functions=["RegretParams::gen_discount", "logaddexp::LogAddExp::ln_add_exp (executed)"],
      stubs=["f64::ln -> contract model (finite, sign by side of 1)", _EXP, "f64::powf -> any non-negative value incl. +inf", "f64::ln_1p -> contract model (0 at 0, in [0, min(x, 0.7)] on [0,1])"], playback=True,
      bounds="exponent any finite non-zero f64 in [-1000, 1000]; iteration any u64 >= 1", role="discount factor for finite exponents is never NaN and lies in [0,1] (over/underflow of t^a included)"),
]
K_NEWREJ = [
    H("c05_params_new_rejects", f"{DATA}::kernels", "quick", functions=["RegretParams::new"], expect_fail=["*"],
      bounds="all f64 4-tuples violating the documented precondition (NaN anywhere, gamma negative/NaN/+inf)", role="constructor panics on every documented-invalid tuple"),
]
K_DRAW = [
    H("c10_sampled_chance_cache", f"{DATA}::draws", "quick", functions=["SampledChance::{new,sample,reset}"],
      stubs=["H-draw hook: the WeightedAliasIndex/thread_rng draw is replaced by an arbitrary index < 3 that is logged"], playback=False,
      bounds="3 outcomes; API sequence new, sample x3, reset, sample x2; every draw value", role="one draw per pass, outcome reused within the pass, fresh draw after reset"),
]

REGISTRY["C05"] = {
    "level": "model_checking",
    "explanation": "Bounded model checking of every numerical kernel a solve is made of (regret matching incl. all fallbacks, "
                   "average-strategy normalisation, parameter constructor), of the single-thread driver loops with abstract bodies "
                   "(budget 0, bounds finite/non-negative) and of the thread-count arithmetic; whole solve runs are out of reach.",
    "assumptions": ["regrets and accumulated strategies within +-1e300 (overflow to inf at astronomically large payoffs is outside the claim)",
                    "rayon pool construction, lock contention, deadlock freedom are outside (Kani is sequential)"],
    "harnesses": [h for h in K_MATCH if h.name.startswith("c05")] + K_AVG + K_NEWREJ + [K_DISCOUNT[-1]] + K_GD,
}
MANIFEST_TEXT["C05"] = {
    "engine": "kani",
    "technique": "bounded model checking (Kani/CBMC SAT) of the solver's kernels, driver loops with stubbed bodies, and thread-count arithmetic",
    "text": "Every kernel that produces strategy entries or bounds is decided total and well-formed for all floats within +-1e300 (ties, -0.0, all-non-positive regrets, nothing accumulated, softmax with exp abstracted by contract), the constructor's panic set is exactly the documented one, a zero budget returns infinite bounds and uniform strategies, and the thread-count overflow is reported as the documented error. Sequential code only.",
    "note": "Compositional: whole solve runs (23M-variable formulas) are out of reach, so 'never panics' is decided per unit; deadlock/hang, pool errors and lock contention are outside. exp is a contract model.",
}

# ---------------------------------------------------------------------------------------------
VAN = "solve::vanilla::verif_kani"
EXT = "solve::external::verif_kani"
_DRV_STUBS = ["vanilla::recurse_single -> ghost stub (counts traversals, checks root and unit reach, ordering)",
              "<RegretInfoset as PlayerRecurse>::advance -> ghost stub (returns a symbolic bound from a table k/4, checks iteration index and ordering)"]
K_DRIVER = [
    H("c09_generic_single_driver_n3", f"{VAN}::driver", "quick", functions=["vanilla::solve_generic_single (loop, per-player summation, comparison, break, final normalisation)", "RegretInfoset::into_avg_strat"],
      stubs=_DRV_STUBS, playback=False, native="c09",
      bounds="budget N in 0..=3; threshold any of the 2^64 f64 bit patterns; per-infoset bounds k/4 in [0,4], 3 infosets (2+1); unwind 6",
      role="iterations run == first t with max(b1,b2) < r else N; returned bounds are those of that iteration; one traversal then one update(t) per infoset per iteration"),
    H("c09_generic_single_driver_n4", f"{VAN}::driver", "thorough", functions=["vanilla::solve_generic_single"],
      stubs=_DRV_STUBS, playback=False, native="c09", bounds="as above with budget N in 0..=4; unwind 7", role="same"),
]
_POWHALF = "f64::powf -> records (base, exponent, number of calls) and returns 0.5"
K_ADVANCE = [
    H("c08_advance_order_plain", f"{VAN}::advance", "quick", functions=["<RegretInfoset as PlayerRecurse>::advance"],
      bounds="2 actions, integer regrets in [-8,8], (alpha,beta,weight) in {-inf,0,+inf}^3, gamma 0, t in 1..=8",
      role="update == regret-match on undiscounted regrets, then discount regrets(t), then average, then report 2*max(R,0)/t of the discounted regrets"),
    H("c08_advance_order_mutex", f"{VAN}::advance", "quick", functions=["<MutexRegretInfoset as MutexPlayerRecurse>::advance"],
      bounds="as above on AtomicF64 / Mutex accumulators", role="same order for the multi-threaded infoset type"),
    H("c08_advance_average_index_plain", f"{VAN}::advance", "quick", functions=["<RegretInfoset as PlayerRecurse>::advance", "RegretParams::discount_average_strat"],
      stubs=[_POWHALF], playback=True, bounds="gamma in {1,2,3}, t in 1..=16", role="average discounted once per update with base t/(t+1), exponent gamma"),
    H("c08_external_advance_order_first", f"{EXT}::steps", "quick", functions=["<CachedInfoset as ActiveInfo>::advance::<true>"],
      bounds="2 actions, integer regrets, special exponents, gamma 0, t in 1..=8", role="same order (external, first player)"),
    H("c08_external_advance_order_second", f"{EXT}::steps", "quick", functions=["<CachedInfoset as ActiveInfo>::advance::<false>"],
      bounds="as above", role="same order (external, second player)"),
    H("c08_external_average_index_first", f"{EXT}::steps", "quick", functions=["<CachedInfoset as ActiveInfo>::advance::<true>"],
      stubs=[_POWHALF], playback=True, bounds="gamma in {1,2,3}, t in 1..=16", role="first player's average discounted with index t-1"),
    H("c08_external_average_index_second", f"{EXT}::steps", "quick", functions=["<CachedInfoset as ActiveInfo>::advance::<false>"],
      stubs=[_POWHALF], playback=True, bounds="gamma in {1,2,3}, t in 1..=16", role="second player's average discounted with index t"),
]
K_C10 = [
    H("c10_multinomial_inverse_cdf", "solve::multinomial::verif_kani", "quick", functions=["<Multinomial as Distribution<usize>>::sample::<SymRng>", "Multinomial::new", "rand Standard f64 (word >> 11) * 2^-53"],
      pbfile="h_multinomial",
      bounds="all 2^64 generator words; weight vectors k/8 summing to 1 with 2..4 entries (zeros allowed); unwind 6",
      role="returns k iff the variate lies in (c_k, c_{k+1}]; exactly one variate consumed"),
    H("c10_cached_infoset_sample", f"{EXT}::steps", "quick", functions=["CachedInfoset::sample"],
      stubs=["H-draw hook: the Multinomial/thread_rng draw is an arbitrary index < len that is logged with the weights pointer"], playback=True,
      bounds="2 actions; API sequence new, sample, sample, advance::<FIRST>, sample (both FIRST values)", role="one draw per pass, from the infoset's current strategy; reused within the pass; fresh draw after the update"),
] + K_DRAW
for _h in K_DRAW:
    _h.playback = True

REGISTRY["C09"] = {
    "level": "model_checking",
    "explanation": "The real compiled driver loop solve_generic_single (used by the Full and the chance-sampled method with one thread) is executed symbolically with its two callees "
                   "replaced by ghost stubs: any sequence of per-infoset bounds, any threshold bit pattern, any budget up to the bound.",
    "assumptions": ["stubs over-approximate the traversal/update (any non-negative bound sequence on the quarter grid)",
                    "the multi-threaded drivers and the external-sampling driver loop are outside: Kani is sequential and CBMC does not get through solve_external_single's internal collect() constructions"],
    "harnesses": K_DRIVER,
}
MANIFEST_TEXT["C09"] = {
    "engine": "kani",
    "technique": "bounded model checking (Kani/CBMC SAT) of the real single-thread driver loop with stubbed traversal/update",
    "text": "For all 2^64 threshold bit patterns (NaN, +-0, negative, inf), every bound sequence on a quarter grid and every budget N<=3 (4 thorough), the loop of solve_generic_single runs exactly t* iterations (first t with max(b1,b2) strictly below r, else N), returns that iteration's per-player sums, never exceeds the budget and returns [inf,inf] for N=0. Counterexamples are confirmed by a native sweep through Game::solve.",
    "note": "Claimed for the single-thread driver shared by Full and Sampled. The external-sampling driver and the multi-threaded drivers repeat the same comparison but could not be encoded (stated in DESIGN.md); their loops are outside this check.",
}
REGISTRY["C10"] = {
    "level": "model_checking",
    "explanation": "Bounded model checking of the categorical sampler against an integer inverse-CDF oracle for every generator word, and of the two cache state machines "
                   "(chance infoset, opponent infoset) with the random draw replaced by a logged symbolic draw.",
    "assumptions": ["rand's Standard f64 is (next_u64 >> 11) * 2^-53 (executed, not assumed); WeightedAliasIndex realises the weights it is given (third party, trusted)",
                    "H-draw: under cfg(kani) the two production sampling sites call a logging nondeterministic draw instead of thread_rng"],
    "harnesses": K_C10,
}
MANIFEST_TEXT["C10"] = {
    "engine": "kani",
    "technique": "bounded model checking (Kani/CBMC SAT) of Multinomial::sample over a symbolic RNG word and of the draw caches",
    "text": "The solver shows for all 2^64 RNG words and all weight vectors k/8 (2..4 outcomes) that the sampler returns exactly the index of the cumulative interval containing the variate and consumes one variate; that SampledChance and CachedInfoset draw once per pass, reuse the cached outcome within the pass, draw afresh after reset/advance, and that the opponent's action is drawn from that infoset's current strategy.",
    "note": "Which distribution the alias table realises (rand_distr) and ThreadRng uniformity are trusted. Sharing across chance nodes of one infoset during a traversal and the no-draw claim for the Full method are decided by the traversal-step harnesses listed in the evidence.",
}
REGISTRY["C08"] = {
    "level": "model_checking",
    "explanation": "Compositional: every discount/matching kernel against its documented formula, the update order inside advance() for all three infoset types, the iteration index "
                   "used for the average (t, and t-1 for the first player in external sampling), the traversal steps, and the driver call sequence.",
    "assumptions": ["exp/ln/powf are contract models (numeric value of finite non-zero exponents is outside)", "trajectory-level equality follows from the per-step facts by induction (argument, not a query)"],
    "harnesses": K_DISCOUNT + [h for h in K_MATCH if h.name.startswith("c08")] + K_ADVANCE + [K_DRIVER[0]],
}
MANIFEST_TEXT["C08"] = {
    "engine": "kani",
    "technique": "bounded model checking (Kani/CBMC SAT) of kernels, update order, traversal steps and driver call sequence",
    "text": "Each building block of the documented discounted-CFR iteration is decided against its formula for all inputs in bounds: discount factors 0, 1/2, 1 at -inf, 0, +inf; sign-wise regret discounting; average discount (t/(t+1))^gamma with the right t; regret matching and all fallbacks; presets; update order; one traversal and one update(t) per infoset per iteration; traversal steps for both players and chance. Composition into whole trajectories is an induction argument, not re-derived by the solver.",
    "note": "libm values for finite non-zero exponents are abstracted (contract models); whole multi-iteration solves are out of reach for CBMC (23M variables for the trivial game).",
}
REGISTRY["C02"] = {
    "level": "model_checking",
    "explanation": "The inequality itself is the CFR theorem (trusted mathematics). Its hypotheses are code facts, each decided for all inputs in bounds: the per-infoset bound "
                   "2*max(R,0)/t, the counterfactual regret accumulated by one traversal step, undiscounted accumulation under vanilla parameters, and the driver's per-player sum of the same iteration.",
    "assumptions": ["Zinkevich et al. 2007, Theorem 3/4 (regret bound from counterfactual regrets)", "multi-threaded drivers outside"],
    "harnesses": K_CUM + [K_ADVANCE[0], K_ADVANCE[1], K_DRIVER[0]],
}
MANIFEST_TEXT["C02"] = {
    "engine": "kani",
    "technique": "bounded model checking (Kani/CBMC SAT) of the code-level hypotheses of the CFR regret-bound theorem",
    "text": "Compositional: the solver decides that the per-infoset bound is 2*max(R,0)/t (never negative, zero iff no positive regret), that one traversal step adds exactly the counterfactual regret and reach-weighted strategy, that vanilla parameters leave accumulators undiscounted, and that the driver returns per-player sums of the same iteration's values and stops only when their maximum is below the threshold. The bound-dominates-regret inequality then follows from the CFR theorem, which is trusted, not re-proved.",
    "note": "No end-to-end comparison of bound and true regret is made by the solver (whole solves are out of reach). Thread counts > 1 are outside (see C06).",
}

# ---------------------------------------------------------------------------------------------
_TT = "vanilla::thread_threshold::<FullChance> (the generic function also serves the chance-sampled method)"
K_THREADS = [
    H(f"c06_thread_threshold_leaves_no_work_t{t}", f"{VAN}::threads", "quick", functions=[_TT], playback=False, native="c06",
      bounds=f"tree: root with two decision children over four terminals; task target {t} (the driver passes 3 x threads; the internal tests pass 1); strategies k/4; unwind {u}",
      role="on return nothing is left in `work`: the driver hands only `queue` to the pool and reuses both vectors in the next iteration")
    for t, u in [(1, 2), (2, 3), (3, 4), (4, 5)]
] + [
    H(f"c06_thread_threshold_cut_t{t}", f"{VAN}::threads", "quick", functions=[_TT], playback=False, native="c06",
      bounds=f"tree: root (either player) over a decision node (either player) and a terminal; task target {t}; strategies k/4",
      role="tasks are nodes of the tree carrying exactly their path's reach (own component only), no node twice, no task below another")
    for t in (1, 2)
]
REGISTRY["C06"] = {
    "level": "model_checking",
    "explanation": "Kani is sequential, so thread schedules are outside. What decides whether k threads compute what one thread computes is the sequential decomposition code: "
                   "the frontier computation (a cut with exact reach, nothing left behind in the reused workspace), the atomic/mutex variants of the kernels and of the update, "
                   "each decided by the solver; a workspace counterexample is confirmed natively by solving a family of trees with 1 and k threads through the public API.",
    "assumptions": ["the driver (rayon: par_drain of `queue`, cached traversal, payoff cache) is outside the encoding; 'nothing left in work' is a sufficient condition for what the driver needs",
                    "atomic accumulation order / real schedules are outside"],
    "harnesses": K_THREADS + [K_ADVANCE[1], K_MATCH[1]],
}
MANIFEST_TEXT["C06"] = {
    "engine": "kani",
    "technique": "bounded model checking (Kani/CBMC SAT) of the sequential task-decomposition code and the atomic-kernel variants; native 1-vs-k-thread sweep as counterexample confirmation",
    "text": "For task targets 1..4 on a depth-2 tree and all quarter-grid strategies the solver shows thread_threshold returns a cut of the tree with exact reach and leaves nothing in the reused workspace, and that the atomic/mutex kernel and update variants compute what the plain ones do. Real interleavings are not explored (Kani is sequential); a workspace counterexample is only reported after 1-thread and k-thread solves of a family of trees actually differ.",
    "note": "Outside: solve_generic_multi itself (rayon), atomic summation order, schedules. 'work is empty on return' is sufficient, not necessary; a non-reproducing candidate is reported as inconclusive, never as a violation.",
}
K_XTHREADS = [
    H("c07_external_threshold_leaves_no_work_first_t2", f"{EXT}::xthreads", "quick", functions=["external::thread_threshold::<true>", "external::next_nodes::<true>"], playback=False, native="c07",
      bounds="tree of the updating player's nodes (root, two decision children, four terminals); target 2; unwind 3", role="nothing left in `work` on return"),
    H("c07_external_threshold_leaves_no_work_first_t3", f"{EXT}::xthreads", "quick", functions=["external::thread_threshold::<true>", "external::next_nodes::<true>"], playback=False, native="c07",
      bounds="same tree; target 3; unwind 4", role="nothing left in `work` on return"),
    H("c07_external_threshold_leaves_no_work_second_t3", f"{EXT}::xthreads", "quick", functions=["external::thread_threshold::<false>", "external::next_nodes::<false>"], playback=False, native="c07",
      bounds="same tree owned by player two; second pass; target 3; unwind 4", role="nothing left in `work` on return"),
    H("c07_external_threshold_follows_sample", f"{EXT}::xthreads", "quick", functions=["external::thread_threshold::<true>", "external::next_nodes::<true>", "CachedInfoset::sample"],
      stubs=["H-draw hook (logged symbolic draw)"], playback=True,
      bounds="opponent node at the root over two nodes of the updating player; target 2; every draw", role="frontier lies on the sampled path only; exactly one draw for the opponent infoset, reused by the later traversal"),
]
REGISTRY["C07"] = {
    "level": "model_checking",
    "explanation": "Same scheme as C06 for the sampled solvers: the frontier computation of the external-sampling solver (both passes) and the generic one of the chance-sampled solver leave nothing behind, "
                   "the frontier follows the logged draws, and each infoset draws once per pass (cache state machines). Native confirmation: chance-sampled solves of chance-free trees with 1 and k threads "
                   "(deterministic), and repeated multi-threaded sampled solves (panic / invalid result detection).",
    "assumptions": ["H-draw: draws are symbolic and logged under cfg(kani)", "single_player_iter's parallel section, solve_external_multi and real schedules are outside"],
    "harnesses": K_XTHREADS + [h for h in K_THREADS if "leaves_no_work_t3" in h.name] + [K_C10[1]] + K_DRAW,
}
MANIFEST_TEXT["C07"] = {
    "engine": "kani",
    "technique": "bounded model checking (Kani/CBMC SAT) of the sampled solvers' task-decomposition code with symbolic logged draws; native sweep as confirmation",
    "text": "The solver shows, for every draw, that the external-sampling frontier lies on the sampled path, that an opponent infoset is sampled once and the cached sample is reused by the later traversal, that both passes' frontier computations (and the generic one used by the chance-sampled solver) leave nothing in the reused workspace, and that the chance/opponent caches draw once per pass. Schedules themselves are outside; the unique-visit argument is checked on the sequential code only.",
    "note": "Bounded to depth-2 trees and task targets 2..3. The parallel section of single_player_iter / solve_external_multi (rayon, try_lock) is outside; workspace counterexamples are confirmed natively (deterministic Sampled-on-chance-free-trees comparison, multi-thread panic detection).",
}

# ---------------------------------------------------------------------------------------------
K_STEPS = [
    H("c08_step_recurse_player", f"{VAN}::steps", "quick", functions=["vanilla::recurse_player (decision-node kernel of recurse_single and recurse_multi)"], pbfile="vsteps",
      bounds="either player; payoffs {-2,1,3}^2; strategy (1/4,3/4) or (1/2,1/2); chance/own/opponent reach in {1/4,1/2,1}^3 (all products exact); recursion replaced by the harness closure; unwind 3",
      role="value = sum sigma*u; regret += chance-reach x opponent-reach x (u_a - value), negated for player two; children entered with only the acting player's reach scaled"),
    H("c08_step_update_cum_strat", f"{VAN}::steps", "quick", functions=["<RegretInfoset as PlayerRecurse>::update_cum_strat", "<MutexRegretInfoset as MutexPlayerRecurse>::update_cum_strat"], pbfile="vsteps",
      bounds="own reach in {1/4,1/2,1}; strategy (1/4,3/4) or (1/2,1/2)", role="average strategy += own reach x current strategy (plain and mutex infoset)"),
    H("c10_full_chance_enumerates_all", f"{VAN}::steps", "quick", functions=["<FullChance as ChanceRecurse>::next_nodes"], pbfile="vsteps",
      bounds="3 outcomes", role="the unsampled method visits every chance outcome with its declared probability (no draw)"),
]
K_XSTEPS = [
    H("c08_external_step_active", f"{EXT}::steps", "quick", functions=["<CachedInfoset as ActiveInfo>::recurse"],
      bounds="payoffs {-2,1,3}^2; strategy (1/4,3/4) or (1/2,1/2); recursion replaced by the harness closure", role="every action explored; regret += u_a - value without reach; own average untouched"),
    H("c08_external_step_opponent", f"{EXT}::steps", "quick", functions=["<CachedInfoset as ExternalInfo>::next_update", "CachedInfoset::sample"],
      stubs=["H-draw hook (logged symbolic draw)"], playback=True, bounds="2 actions; every draw", role="average += current strategy; traversal follows the single drawn action"),
    H("c08_external_terminal_sign", f"{EXT}::steps", "quick", functions=["external::recurse_regret::<true/false> (terminal arm)"],
      bounds="payoffs {-2,1,3}", role="first pass sees +u, second pass -u"),
]
REGISTRY["C08"]["harnesses"] += K_STEPS[:2] + K_XSTEPS
REGISTRY["C02"]["harnesses"] += K_STEPS[:2]
REGISTRY["C10"]["harnesses"] += [K_STEPS[2], K_XSTEPS[1]]
REGISTRY["C06"]["harnesses"] += [K_STEPS[1]]

# ---------------------------------------------------------------------------------------------
_MAPS = "std HashMap/HashSet replaced by the association-list model /verif/kani/models/maps.rs (Hash never called)"
REGISTRY["C14"] = {
    "level": "model_checking",
    "explanation": "Bounded model checking of both import implementations (strat_into_box_slow as compiled; strat_into_box with the container model) against an independent contract "
                   "predicate and against each other, on symbolic candidate strategies.",
    "assumptions": [_MAPS, "game tables built directly: one 2-action infoset and one single-action infoset for the importing player"],
    "harnesses": [
        H("c14_import_slow_contract", f"{LIB}::c14", "quick", functions=["Game::strat_into_box_slow", "split::split_by_mut"],
          bounds="2 entries (infoset label in {multi, single, unknown}); first with 0..2, second with 0..1 (action, weight) pairs; actions in {legal 0, legal 1, the single action, illegal}; weights in {-1,-0,0,1,3,1e308,+inf,NaN}; unwind 3",
          role="accepts iff no documented rule is violated; error kind names a violated rule; value = weight/total with last write winning; accepted result is a distribution"),
        H("c14_import_hash_contract", f"{LIB}::c14", "quick", functions=["Game::strat_into_box"], stubs=[_MAPS], playback=True,
          bounds="same inputs", role="same contract for the hash-based import"),
        H("c14_import_paths_agree", f"{LIB}::c14", "quick", functions=["Game::strat_into_box", "Game::strat_into_box_slow"], stubs=[_MAPS], playback=True,
          bounds="same inputs", role="both functions: same error kind or bit-identical probabilities"),
    ],
}
MANIFEST_TEXT["C14"] = {
    "engine": "kani",
    "technique": "bounded model checking (Kani/CBMC SAT) of both strategy-import functions against a contract predicate and each other",
    "text": "For every candidate strategy within the bounds (two entries, up to three (action, weight) pairs, names covering missing / extra / other-player / illegal cases, weights on a lattice of special values incl. -0, huge, inf, NaN) the solver shows: success iff the documented rules hold, the error kind names a violated rule, values are weight/total with the last entry winning, the accepted result is a distribution, and the hash-based and scan-based functions agree bit for bit.",
    "note": "The hash-based path runs over an association-list model of HashMap (trusted; Hash/bucket behaviour outside). Bounded list lengths; weights restricted to the stated lattice.",
}

# ---------------------------------------------------------------------------------------------
# E2: MIR -> SMT for the CLI glue
import os as _os
import sys as _sys
_sys.path.insert(0, _os.path.join(_os.path.dirname(_os.path.abspath(__file__)), "..", "mirsmt"))


def _mirsmt(prop, tier):
    import cli_check
    return cli_check.run(prop, tier)


_E2_EXPL = ("Symbolic execution of rustc's MIR of `fn main` (acyclic, every complete path) with library calls as uninterpreted functions and f64 in the SMT "
            "floating-point theory; each path's observed call arguments / printed fields are compared with the specification by z3 (a sample re-checked with cvc5). "
            "The MIR is dumped from /repo's current tree on every run.")
REGISTRY["C15"] = {
    "level": "other",
    "explanation": _E2_EXPL + " Slice: from the solve call to the Output aggregate (clip step, utilities with the constant-sum offset, regrets, which profile is printed).",
    "assumptions": ["rustc's MIR dump is the program that is compiled", "callees (parsers, solve, get_info, truncate, as_named, serialisation) are uninterpreted: parsing, payoff accumulation, action sorting, infoset naming and JSON serialisation are outside",
                    "the converter contract: gambit::from_reader returns (game with player-one payoffs minus s, s) with s = half the constant sum (read from src/gambit.rs, not encoded)"],
    "parts": [_mirsmt],
}
MANIFEST_TEXT["C15"] = {
    "engine": "mirsmt",
    "technique": "MIR-to-SMT symbolic execution of the CLI's main (output-assembly slice), decided by z3, cross-checked by cvc5",
    "text": "For every path through main and all values (FP theory, NaN included) the solver shows that the printed regrets are those of the profile actually printed (after the clip step), that each utility is the library utility of that player plus the constant-sum offset (so the two add up to the constant), that the total regret is the library's max, and that the printed strategies are the named view of that same profile. Only the output-assembly slice: parsers and serialisation are outside.",
    "note": "Level 'other': bounded/acyclic symbolic execution of compiler IR with uninterpreted callees; a counterexample is confirmed by running the built binary on generated constant-sum Gambit and JSON files and re-evaluating the printed strategies independently.",
}
REGISTRY["C16"] = {
    "level": "other",
    "explanation": _E2_EXPL + " Slice: option wiring (method, preset, budget with 0 = unlimited, threshold, threads), input route and format selection, clip decision, output route.",
    "assumptions": ["rustc's MIR dump is the program that is compiled", "clap's parsing of the command line into Args and the parsers themselves are outside",
                    "the five preset constructors are checked against the documented tuples under C08 (c08_presets)"],
    "parts": [_mirsmt],
}
MANIFEST_TEXT["C16"] = {
    "engine": "mirsmt",
    "technique": "MIR-to-SMT symbolic execution of the CLI's main (option-wiring slice) and Discount::into_params, decided by z3, cross-checked by cvc5",
    "text": "For every path through main the solver shows the decision tables equal the help text: -m maps to the library method of the same name, -d to the constructor of the same name, -t 0 to unlimited, -r/-p/-c are passed unchanged, the parser is chosen by --input-format, then by a .json/.efg extension, else by content; stdin/stdout are used iff the name is '-'; the pruned profile is printed exactly when its regret is strictly lower (all f64 pairs); the same object is serialised for every destination. Option-wiring slice only.",
    "note": "Level 'other'. That a JSON and a Gambit encoding convert to the same game, and thread-count independence, are outside (parsers; C06). Counterexamples are confirmed by running the built binary against Game::solve through the replay crate.",
}

REGISTRY["C12"] = {
    "level": "model_checking",
    "explanation": "Only the numeric invariances are decided, at the level of the traversal kernel and the update kernels (relational harnesses: two runs of the real code on related inputs, "
                   "exact arithmetic): player mirror (exchange the players, negate payoffs => same regrets, negated value), payoff scaling by 2 (value, regret increments and bounds scale; "
                   "matched strategy bit-identical). The structural invariances (chance weight rescaling, inserting/removing single-outcome and single-action nodes, renaming) live in "
                   "Game::from_root, whose symbolic execution is out of reach (see C11), and are NOT claimed.",
    "assumptions": ["trajectory-level invariance follows from the step relations by induction over iterations (argument, not a query)", "scaling by powers of two only (exact in binary floating point)"],
    "harnesses": [
        H("c12_step_mirror_and_scale", f"{VAN}::steps", "quick", functions=["vanilla::recurse_player"], pbfile="vsteps",
          bounds="payoffs {-2,1,3}^2; strategy (1/4,3/4) or (1/2,1/2); reach in {1/4,1/2,1}^3", role="player mirror and payoff scaling of one traversal step (three runs compared)"),
        H("c12_scale_match_and_bound", f"{DATA}::rmatch", "quick", functions=["RegretParams::regret_match", "RegretParams::cum_regret"],
          bounds="3 integer regrets in [-8,8]; fallback weight in {+inf,-inf,0}; iteration 1..=16", role="regrets x2 => identical strategy, bound x2"),
    ],
}
MANIFEST_TEXT["C12"] = {
    "engine": "kani",
    "technique": "bounded model checking (Kani/CBMC SAT) of relational harnesses: the real kernels run on related inputs and compared",
    "text": "Partial: the solver decides the payoff-scaling and player-mirror relations for one traversal step and for regret matching / the reported bound, for all inputs on exact grids. Invariance under re-presentation of the tree (weight rescaling, degenerate nodes, renaming) depends on Game::from_root, which could not be encoded, and is not claimed; neither is the trajectory-level statement.",
    "note": "Step-level relations only; the constructor part of this property is outside (see not_applicable reason of C11 and DESIGN.md).",
}

_CACHED = H("c06_recurse_multi_chance_and_cached_root", f"{VAN}::steps", "quick", functions=["vanilla::recurse_multi (cache lookup, chance arm)", "<FullChance as ChanceRecurse>::next_nodes"], pbfile="vsteps",
            bounds="chance node (1/4, 3/4) over two children served from a harness-defined payoff cache; cached values in {-2,1,3}; unwind 3",
            role="a cached node returns its cached payoff without descending; chance value = probability-weighted sum over every outcome")
REGISTRY["C06"]["harnesses"].append(_CACHED)
REGISTRY["C06"]["harnesses"].append(
    H("c06_thread_threshold_cut_two_levels", f"{VAN}::threads", "quick", functions=[_TT], playback=False, native="c06",
      bounds="complete binary tree of depth 2, owners of root and second level symbolic (same player possible); task target 3 (frontier stops mid-level); strategies k/4; unwind 4",
      role="every task carries the product of the strategy probabilities along its path in its owner's component"))
REGISTRY["C12"]["harnesses"].append(K_MATCH[-1])
REGISTRY["C08"]["harnesses"].append(_CACHED)

# ---------------------------------------------------------------------------------------------
# E2 for the external-sampling drivers (their loops could not be carried by Kani)
def _mirsmt_drivers(keys):
    def part(prop, tier):
        import driver_check
        r = driver_check.run(prop, tier)
        keep = []
        for f in r["findings"]:
            k = f.key.split(":", 1)[1]
            if any(k.startswith(p) for p in keys):
                f.native_kind = "c10" if "chance-reset" in k else "c07" if k.startswith("spi-") else ("c06" if k.startswith("vm-") else ("gs" if k.startswith("gs-") else "xdriver"))
                keep.append(f)
        r["findings"] = keep
        r["obligations"] = [o for o in r["obligations"] if any(o[1].startswith(p) for p in keys)]
        return r
    return part


REGISTRY["C08"]["parts"] = [_mirsmt_drivers(["xs-", "gs-default", "gs-dispatch", "gs-budget", "gs-threshold", "gs-player"])]
REGISTRY["C05"]["parts"] = [_mirsmt_drivers(["gs-one-thread", "gs-thread-overflow"])]
REGISTRY["C10"]["parts"] = [_mirsmt_drivers(["gs-dispatch", "vs-chance-reset", "vm-chance-reset", "xs-call-counts"])]
REGISTRY["C09"]["parts"] = [_mirsmt_drivers(["xs-stop", "xs-iteration", "xs-call-counts", "xs-order"])]
REGISTRY["C07"]["parts"] = [_mirsmt_drivers(["spi-"])]
REGISTRY["C06"]["parts"] = [_mirsmt_drivers(["vm-"])]
for _p, _t in (("C08", " The external-sampling driver loop (one iteration: pass order, which table and which advance::<FIRST> each pass uses, iteration index) is decided by E2 on the library's MIR."),
               ("C09", " For the external-sampling driver the stop decision of one iteration is decided by E2 on the library's MIR: the loop leaves exactly when fp.max(b1,b2) < r, for all f64."),
               ("C06", " One iteration of the rayon driver closure of solve_generic_multi is executed symbolically from the library's MIR (E2; inner loop unrolled <= 3): the tasks handed to the pool are thread_threshold's queue, their payoffs go into the cache the cached traversal reads, and that cache is cleared at the end of every iteration."),
               ("C05", " Game::solve's thread-count arithmetic is decided by E2 on the library's MIR (acyclic): with one thread no error path exists; 3 x threads overflowing usize returns SolveError::ThreadOverflow before any solver runs."),
               ("C10", " The method dispatch of Game::solve is decided by E2 on the library's MIR: each method reaches only its own solver (the unsampled method never reaches a sampling solver). One iteration of each driver loop (solve_generic_single, the solve_generic_multi closure, solve_external_single) shows that after every traversal EVERY chance infoset is advanced - for_each over the whole table the traversal read - so no draw survives into the next pass."),
               ("C07", " The loop-free single_player_iter is decided by E2 on the library's MIR: cut, tasks into the cache, cached traversal, the same cache cleared after every pass, update.")):
    REGISTRY[_p]["explanation"] += _t
    MANIFEST_TEXT[_p]["engine"] = "kani+mirsmt"
    MANIFEST_TEXT[_p]["technique"] += "; MIR-to-SMT (z3) for the external-sampling driver"
MANIFEST_TEXT["C09"]["note"] = ("Kani: the full single-thread loop shared by Full and Sampled (any budget <= 3). E2: one iteration of solve_external_single from an arbitrary state (call sequence and stop decision); "
                                "solve_generic_multi and solve_external_multi's scope closures are outside.")

_ACC = H("c02_bound_and_info_accessors", f"{LIB}::c02", "quick", functions=["RegretBound::{new,player_regret_bound,regret_bound}", "StrategiesInfo::{player_regret,regret,player_utility}"],
         bounds="all non-negative f64 pairs incl. +inf; utility any non-NaN f64", role="total = larger of the two players; per-player values indexed by player; player two's utility is the negation")
REGISTRY["C02"]["harnesses"].append(_ACC)

_GDREC = "RegretParams::gen_discount -> recorder (logs the iteration index, returns 1/2)"
_IDX = [
    H("c08_advance_regret_discount_index", f"{VAN}::advance", "quick", functions=["<RegretInfoset as PlayerRecurse>::advance", "<MutexRegretInfoset as MutexPlayerRecurse>::advance", "RegretParams::discount_cum_regret"],
      stubs=[_GDREC], playback=False, native="xdriver", bounds="finite exponents (1.5, 0.5); t in 1..=100; regrets (2,-4)", role="regret discounts of iteration t are computed with index t (plain and mutex infoset); bound from the discounted regrets"),
    H("c08_external_regret_discount_index", f"{EXT}::steps", "quick", functions=["<CachedInfoset as ActiveInfo>::advance::<true/false>"],
      stubs=[_GDREC], playback=False, native="xdriver", bounds="same, both passes", role="regret discounts use index t for both players in external sampling"),
]
REGISTRY["C08"]["harnesses"] += _IDX
REGISTRY["C19"]["harnesses"].insert(3, H("c19_distance_unequal_tables", f"{LIB}::c19", "quick", functions=["Strategies::distance"],
    stubs=["f64::powf -> x^2 on the grid; exponent fixed to 2"], playback=True,
    bounds="player one: two 2-action infosets, player two: one; probabilities k/4", role="each player's distance is the mean over THAT player's infosets of half the summed squared differences (exact value)"))
REGISTRY["C14"]["harnesses"].append(H("c14_import_two_infosets_layout", f"{LIB}::c14", "quick", functions=["Game::strat_into_box", "Game::strat_into_box_slow"], stubs=[_MAPS], playback=True,
    bounds="two 2-action infosets listed in either order, one (action, weight) pair each, every action choice; unwind 3", role="each weight lands in the slot of its own infoset and action in both import functions"))

REGISTRY["C08"]["harnesses"].append(H("c08_recurse_single_chance_over_terminals", f"{VAN}::steps", "quick", functions=["vanilla::recurse_single (chance arm)", "<FullChance as ChanceRecurse>::next_nodes"], pbfile="vsteps",
    bounds="chance node (1/4, 3/4) over two terminals with payoffs in {-2,1,3}; unwind 3", role="single-thread traversal: chance value = probability-weighted sum over every outcome"))
REGISTRY["C10"]["harnesses"].append(REGISTRY["C08"]["harnesses"][-1])

REGISTRY["C07"]["harnesses"].append(H("c07_external_threshold_follows_sample_second_pass", f"{EXT}::xthreads", "quick",
    functions=["external::thread_threshold::<false>", "external::next_nodes::<false>", "CachedInfoset::sample"], stubs=["H-draw hook (logged symbolic draw)"], playback=True,
    bounds="player-one (opponent of the second pass) node at the root over two player-two nodes; target 2; every draw", role="second pass: frontier on the sampled path only; one draw, reused"))
REGISTRY["C08"]["harnesses"] += [
    H("c08_advance_average_index_mutex", f"{VAN}::advance", "quick", functions=["<MutexRegretInfoset as MutexPlayerRecurse>::advance"], stubs=[_POWHALF], playback=True,
      bounds="gamma in {1,2,3}, t in 1..=16", role="multi-thread infoset: average discounted once per update with base t/(t+1), exponent gamma"),
    H("c08_recurse_single_one_action_node", f"{VAN}::steps", "quick", functions=["vanilla::recurse_single (decision-node arm: borrow, update_cum_strat, recurse_player, regret correction)"], pbfile="vsteps", playback=True, native="c06",
      bounds="one-action decision node of either player over a terminal; reach in {1/4,1/2,1}^3; real recursion (depth 2); unwind 2", role="single-thread traversal feeds the average strategy with the ACTING player's own reach; value is the child's; regret unchanged"),
]
REGISTRY["C02"]["harnesses"].append(REGISTRY["C08"]["harnesses"][-1])

# ---------------------------------------------------------------------------------------------
# E2 for the constructor: one invocation of init_recurse (the recursion itself could not be carried by Kani)
def _ctor(prop, tier):
    import ctor_check
    r = ctor_check.run(prop, tier)
    for f in r["findings"]:
        f.native_kind = "c11"
    return r


REGISTRY["C11"] = {
    "level": "other",
    "explanation": "Symbolic execution of rustc's MIR of ONE invocation of Game::init_recurse (every complete path; the three input loops unrolled <= 2 iterations; recursive calls, "
                   "iterators, Vec and map operations uninterpreted; chance weights in the SMT floating-point theory, list and set sizes as integers). Each path's result is compared with the "
                   "documented contract as a decision table over the facts the path established about ITS node: the solver decides the weight rule (kept <=> positive and finite, every f64) and "
                   "the distinctness rule (recorded <=> set size = list length); structural obligations cover which error is named, that accepting paths established every per-node rule, that "
                   "a revisited chance infoset is compared after summing and dividing, what is passed down (context, this player's previous infoset updated for the children, weight/child pairing) "
                   "and what is recorded for a new infoset. The MIR is dumped from /repo's current tree on every run.",
    "assumptions": ["rustc's MIR dump is the program that is compiled", "containers, iterators and the recursive calls are uninterpreted: that the tables return what was inserted (compact.rs, HashMap) is outside",
                    "one invocation only: that the per-node facts add up to the documented class of whole trees is an induction argument, not a query",
                    "std / indexmap containers and iterators behave as documented (IndexMap keeps insertion order, entry() finds equal keys)"],
    "parts": [_ctor],
    "harnesses": [
        H("c11_builder_index_allocation", f"{LIB}::compact", "thorough", functions=["compact::Builder::{new,entry,contains,into_iter}", "compact::VacantEntry::insert", "compact::OccupiedEntry::get"],
          stubs=[_MAPS], playback=True, bounds="three lookups with symbolic keys in {0,1,2}; unwind 5",
          role="insertion-ordered index allocation of the infoset table: new key -> number of keys before it; revisited key -> index and value of its first insertion; iteration in index order"),
    ],
}
MANIFEST_TEXT["C11"] = {
    "engine": "mirsmt+kani",
    "technique": "MIR-to-SMT symbolic execution of one invocation of Game::init_recurse and of the helpers it relies on (per-node decision table), decided by z3; thorough tier adds a Kani/CBMC harness on the compact table",
    "text": "Partial: for every path through one invocation of the constructor's recursive step the solver / path analysis shows that a chance weight is kept exactly when it is positive and finite (all f64), that each error kind is returned only in its documented situation and a node is accepted only after every rule that concerns that node alone was established (empty chance / player nodes, weights, probabilities equal after normalisation on a revisit, actions equal, actions distinct on the first visit, same previous infoset of the same player), that failing subtrees propagate, and that the children are built with the right context (history carrying infoset AND action). The crate-local helpers the step relies on (ChanceInfosetData::new, PlayerInfosetBuilder::new, PlayerInfosetData::new, Chance::new, PlayerNum::ind / ind_mut, compact Builder / OptBuilder entry, insert, get, contains, and Game::from_root's set-up) are each executed on their own and shown to be the plain constructors, projections and table operations assumed. Whole-tree consequences (that these per-node rules add up to the documented class: induction over the tree, an argument) are not claimed.",
    "note": "Level 'other'. Per-node step only; Game::from_root as a whole could not be encoded (Kani: drop glue and recursion, DESIGN.md section 2). A finding is confirmed natively by building 92 small valid / singly-invalid trees through Game::from_root (replay crate, c11). Three defects found this way were repaired (F7, F8, F11).",
}


# ---------------------------------------------------------------------------------------------
# E2 for the evaluator: regret() and one iteration of each work-list loop (Kani could not carry the Vec stacks)
def _eval(prop, tier):
    import eval_check
    r = eval_check.run(prop, tier)
    for f in r["findings"]:
        f.native_kind = "c01"
    return r


REGISTRY["C01"] = {
    "level": "other",
    "explanation": "Symbolic execution of rustc's MIR of src/regret.rs: `regret` (acyclic) and ONE iteration, from an arbitrary state (arbitrary popped (node, reach), accumulator, tables), of the "
                   "work-list loops of `expected`, `next_infoset_search` and of both loops (reach collection, leaves-first resolution) of `optimal_deviations` (inner for-loops unrolled <= 2 children, <= 4 in the thorough tier; Vec, iterators, zip and the "
                   "infoset tables uninterpreted). Decided per step: a terminal adds reach x payoff (sign by deviating player); a chance node schedules every outcome with probability x reach from "
                   "the node's chance infoset; an opponent / acting node schedules its actions with (that player's probability at the node's infoset) x reach and z3 shows an action is skipped only if "
                   "its probability is not positive (every f64); an own node contributes reach x the value resolved for its infoset (search) or is recorded with its reach under its infoset, counted as "
                   "pending for its previous infoset, children scheduled with the same reach (collection); initial state and return value; regret() searches each player's best response over that "
                   "player's infosets against the other player's strategy and z3 shows regret_i = max(best_i -/+ utility, 0). The MIR is dumped from /repo's current tree on every run.",
    "assumptions": ["rustc's MIR dump is the program that is compiled", "Vec / iterator / zip / table accessors behave as documented (uninterpreted)",
                    "that the per-step recurrences add up to the exact expected value and best response on whole trees is an induction argument (needs perfect recall, which C11 establishes per node), not a query",
                    "inner loops over children unrolled to 2 (quick) / 4 (thorough) children"],
    "parts": [_eval],
}
MANIFEST_TEXT["C01"] = {
    "engine": "mirsmt",
    "technique": "MIR-to-SMT symbolic execution of regret() and of one iteration of each work-list loop of the evaluator, decided by z3",
    "text": "Partial: for every path through one iteration of the evaluator's three work-list loops (arbitrary popped node and state) the recurrences of the expected value and of the best-response search are the textbook ones (terminal, chance, own and opponent nodes; which tables; which weights; zero-probability actions the only ones skipped), and regret() combines them as max(best response - utility, 0) for each player with the right tables. One iteration of the leaves-first resolution loop is covered too (nodes of the popped infoset, total reach, pending counts and readiness of the previous infoset, accumulation of continuation values, max over actions divided by the total reach, start set). The whole-tree exactness statement (induction over the infoset forest) is not claimed.",
    "note": "Level 'other'. A finding is confirmed natively by comparing Strategies::get_info with an independent evaluation (recursion for the utility, enumeration of all pure strategies for the best response) on seven small imperfect-information games x 67 profiles (replay crate, c01).",
}


# C12, structural half at the level of ONE constructor step (same E2 run as C11, other obligations)
_C12_KEYS = ("ctor-normalise-by-sum", "ctor-compare-normalised", "ctor-table-child", "ctor-table-tail", "ctor-single-recursion", "ctor-chance-recursion", "ctor-helper-chance-data", "ctor-helper-opt-counter")


def _ctor_c12(prop, tier):
    import ctor_check
    r = ctor_check.run(prop, tier)
    keep = []
    for f in r["findings"]:
        if any(f.key.split(":", 1)[1].startswith(k) for k in _C12_KEYS):
            f.native_kind = "c12"
            keep.append(f)
    r["findings"] = keep
    r["obligations"] = [o for o in r["obligations"] if any(o[1].startswith(k) for k in _C12_KEYS)]
    return r


REGISTRY["C12"]["parts"] = [_ctor_c12]
REGISTRY["C12"]["explanation"] = REGISTRY["C12"]["explanation"].replace(
    "The structural invariances (chance weight rescaling, inserting/removing single-outcome and single-action nodes, renaming) live in "
    "Game::from_root, whose symbolic execution is out of reach (see C11), and are NOT claimed.",
    "The structural invariances are decided only per constructor step (E2 on one invocation of Game::init_recurse, shared with C11): the probabilities stored and compared for a chance "
    "infoset are weight / (sum of the kept weights) - a function that exact rescaling leaves unchanged -, a single-outcome chance node and a single-action decision node contribute no node "
    "of their own (the child's node is returned / the recursion continues with the unchanged context), anonymous chance nodes are numbered by a counter and labels are only compared for "
    "equality (renaming). That whole solves are therefore invariant is an argument, not a query.")
MANIFEST_TEXT["C12"]["engine"] = "kani+mirsmt"
MANIFEST_TEXT["C12"]["technique"] += "; MIR-to-SMT path analysis of one constructor step for the structural invariances"
MANIFEST_TEXT["C12"]["text"] = ("Partial: the solver decides the payoff-scaling and player-mirror relations for one traversal step and for regret matching / the reported bound, for all inputs on exact grids. "
                                "Re-presentation of the tree is decided per constructor step only (one invocation of Game::init_recurse from the MIR): stored chance probabilities are weight / sum of kept weights, "
                                "degenerate (single-outcome, single-action) nodes leave no node behind, anonymous chance nodes get fresh numbers. The trajectory-level statement is not claimed.")
MANIFEST_TEXT["C12"]["note"] = "Step-level relations only; invariance of whole solves under re-presentation follows by an argument from the per-step facts and is not a query."


# ---------------------------------------------------------------------------------------------
# E2 for the CLI's read-or-die glue (what the parsers accept stays outside)
def _glue(prop, tier):
    import glue_check
    return glue_check.run(prop, tier)


REGISTRY["C17"] = {
    "level": "other",
    "explanation": "Symbolic execution of rustc's MIR of the binary's reader glue (json::from_reader, json::from_state, json::from_str, auto::from_reader, gambit::from_reader, gambit::from_str; all acyclic) "
                   "and of the call order in `main`, with the parsers (serde_json, gambit-parser), get_global_info, Game::from_root and Game::solve uninterpreted. For every path: a reader returns a game "
                   "only through the parser's Ok arm AND Game::from_root's Ok arm (Gambit: AND exactly two players); every other arm diverges through expect / panic! with the documented diagnostic "
                   "(#json-error, #gambit-error, #auto-error, #game-error, the player-count message) or, in the from_str functions, passes the parser's error to the caller that diverges; auto detection "
                   "tries JSON, then Gambit, then diverges; `main` opens / writes its output only after the reader returned and the solver returned Ok for the game that was read. "
                   "The MIR is dumped from /repo's current tree on every run.",
    "assumptions": ["rustc's MIR dump is the program that is compiled", "Result::expect / unwrap / panic! diverge and a panicking process exits with a non-zero status and prints the message on stderr (std)",
                    "WHICH byte strings the parsers reject is NOT covered; of gambit::get_global_info only the tail and the terminal arm of the payoff loop are (constant-sum decision against the README's 0.1 % rule and the finite-payoff test, decided by z3 for every f64), not the accumulation of outcome payoffs nor the infoset-name pass",
                    "which trees Game::from_root rejects is C11's subject"],
    "parts": [_glue],
}
MANIFEST_TEXT["C17"] = {
    "engine": "mirsmt",
    "technique": "MIR-to-SMT style path analysis of the CLI's reader glue and of main's call order (structural obligations on every path; z3 floating-point queries for the constant-sum decision)",
    "text": "Partial: for every path through the CLI's reader functions a game is handed to the solver only if the selected parser succeeded and Game::from_root accepted the tree (and a Gambit file has exactly two players); all other paths end the process through expect / panic! with the documented diagnostic, and main prints a result object only after reader and solver returned. For Gambit files z3 shows (every f64) that the accept / reject decision after the payoff loop is the README's rule (range of payoff sums x 1000 > range of player one's payoffs => #constant-sum) and that a non-finite payoff sum is rejected. Which inputs the third-party parsers reject is not claimed.",
    "note": "Level 'other'. Thin by design: the part of this property that lives in serde_json / gambit-parser / get_global_info cannot be encoded. A finding is confirmed natively by running the built binary on 71 corrupted JSON / Gambit inputs under every input route (exit status, empty stdout, documented diagnostic on stderr) plus three valid controls.",
}
