"""Which harnesses / queries decide which property. Kept next to the driver so that evidence can
describe every unit (functions encoded, bounds, stubs, assumptions)."""
from kani_engine import Harness as H

REGISTRY = {}

LIB = "verif_kani"

REGISTRY["C18"] = {
    "level": "model_checking",
    "explanation": "Bounded model checking (Kani/CBMC, CaDiCaL) of the compiled Strategies::truncate on directly "
                   "constructed Game/Strategies values; inputs are symbolic floats, the solver decides every assertion "
                   "for all values within the bounds.",
    "assumptions": ["Kani's MIR->GOTO translation and CBMC's IEEE-754 bit-blasting are trusted",
                    "game tables are built directly (private fields); truncate reads only the per-infoset action counts"],
    "harnesses": [
        H("c18_truncate_valid_full", f"{LIB}::c18", "quick",
          functions=["Strategies::truncate", "split::split_by_mut"],
          bounds="2 infosets x 2 actions; probabilities (a,1-a),(b,1-b) with a,b any f64 in [0,1]; threshold any non-NaN f64 incl. +-inf; unwind 4",
          role="always a distribution afterwards; support == positive actions above the threshold when one exists"),
        H("c18_truncate_values_dyadic", f"{LIB}::c18", "quick",
          functions=["Strategies::truncate", "split::split_by_mut"],
          bounds="player one: 1 infoset x 3 actions with p=k/16 summing to 1; player two: 2 actions m/8; threshold j/32, j in -1..=33; unwind 5",
          role="survivors rescaled to p_i/sum(survivors) (1e-9), sums to one, low threshold is identity, idempotent, both players"),
    ],
}

# ---------------------------------------------------------------------------------------------
# MANIFEST texts
MANIFEST_TEXT = {
    "C18": {
        "engine": "kani",
        "technique": "bounded model checking (Kani/CBMC SAT) of the compiled Strategies::truncate over symbolic floats",
        "text": "For every f64 threshold (incl. +-inf, negative) and every profile within the bounds (2-action infosets over all of [0,1]; 3-action infosets on the k/16 grid) the solver shows the result is a distribution, its support is exactly the actions above the threshold, survivors are rescaled proportionally, a low threshold is the identity and truncation is idempotent. Bounded, not a proof: infoset sizes <= 3, rescaling values only on the dyadic grid.",
        "note": "Trusted: Kani's MIR->GOTO translation, CBMC float bit-blasting, CaDiCaL. Game tables are built directly through private fields (truncate reads only action counts). 'Sums to one' for arbitrary non-dyadic floats is outside the claim.",
    },
}

_PENDING = "check not built yet in this session (work in progress; see DESIGN.md section 5 for the planned harnesses)"
NOT_APPLICABLE = {
    "C03": "asymptotic convergence rate over unbounded float trajectories: needs whole multi-iteration solve runs (one iteration of the trivial game is a 23M-variable formula) and an induction over T; proof-assistant territory, not bounded solving (DESIGN.md C03)",
    "C04": "probabilistic statement over thousands of iterations; with draws symbolic the solver quantifies over adversarial draw sequences, for which the statement is false by design (DESIGN.md C04)",
    "C17": "depends on which byte strings serde_json / gambit-parser (nom, big rationals) reject and on process exit status and stream contents; symbolic execution of those parsers over a symbolic buffer is far beyond reach of Kani here (DESIGN.md C17)",
}
for _p in [f"C{i:02d}" for i in range(1, 20)]:
    if _p not in REGISTRY and _p not in NOT_APPLICABLE:
        NOT_APPLICABLE[_p] = _PENDING
