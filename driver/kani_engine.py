"""E1: run Kani/CBMC harnesses that live in /verif/kani against /repo's working tree."""
import json
import os
import re
import resource
import subprocess
import time

from common import REPO, VERIF, WORK, Finding, env_offline, ensure_dirs

IGNORED_CATEGORIES = {"NaN", "arithmetic_overflow", "division-by-zero", "float-overflow"}
INFRA_CATEGORIES = {"unwind", "unsupported_construct", "safety_check", "precondition_instance",
                    "pointer_dereference", "pointer", "memory-leak", "unreachable", "assume",
                    "bounds", "pointer_primitives", "pointer_arithmetic", "enum", "alignment_check"}
MEM_LIMIT = 24 * 1024 ** 3


class Harness:
    def __init__(self, name, mod, tier="quick", functions=(), bounds="", role="", stubs=(),
                 assumes=(), playback=None, native=None, expect_fail=(), pbfile=None):
        self.name = name
        self.mod = mod                # module path inside the crate, e.g. "verif_kani::c18"
        self.tier = tier              # quick harnesses also run in thorough
        self.functions = list(functions)
        self.bounds = bounds
        self.role = role
        self.stubs = list(stubs)
        self.assumes = list(assumes)
        # stubs are not active in native playback; playback is only meaningful there when the
        # harness says so explicitly (all harness-level kani::any() precede the first stub call and
        # the stub over-approximates the real function)
        self.playback = (not stubs and not native) if playback is None else playback
        self.expect_fail = list(expect_fail)   # descriptions of panics that MUST be reachable
        self.pbfile = pbfile or mod.split("::")[-1]
        self.native = native          # name of a native confirmer (replay crate) when playback is impossible

    @property
    def full(self):
        return f"{self.mod}::{self.name}"


def _limit():
    try:
        resource.setrlimit(resource.RLIMIT_AS, (MEM_LIMIT, MEM_LIMIT))
    except Exception:
        pass


def _base_cmd(target_dir):
    return ["cargo", "kani", "--manifest-path", f"{REPO}/Cargo.toml", "--lib", "--no-default-features",
            "--target-dir", target_dir, "-Z", "stubbing", "-Z", "unstable-options",
            "--no-memory-safety-checks"]


def ensure_playback_includes():
    """Every harness module ends with `#[cfg(test)] #[path = "/verif/.work/playback/<m>.rs"] mod pb;`
    The file must exist when the crate is compiled for playback (cfg(kani) + cfg(test))."""
    ensure_dirs()
    pat = re.compile(r'#\[path\s*=\s*"(/verif/\.work/playback/[A-Za-z0-9_]+\.rs)"\]')
    for root, _, files in os.walk(os.path.join(VERIF, "kani")):
        for fn in files:
            if fn.endswith(".rs"):
                for m in pat.finditer(open(os.path.join(root, fn)).read()):
                    p = m.group(1)
                    if not os.path.exists(p):
                        open(p, "w").write("// no playback tests\n")


def reset_playback_includes():
    d = os.path.join(WORK, "playback")
    if os.path.isdir(d):
        for fn in os.listdir(d):
            if fn.endswith(".rs"):
                open(os.path.join(d, fn), "w").write("// no playback tests\n")


def run_harnesses(prop, tier, harnesses, timeout_s, jobs=None):
    """Returns (results: dict full-name -> result dict, build_ok, log_path, wall)."""
    ensure_dirs()
    ensure_playback_includes()
    target = os.path.join(WORK, f"kani-{prop}")
    out_json = os.path.join(WORK, "out", f"{prop}-{tier}.json")
    log = os.path.join(WORK, "out", f"{prop}-{tier}.log")
    if os.path.exists(out_json):
        os.remove(out_json)
    jobs = jobs or max(1, min(len(harnesses), 8))
    cmd = _base_cmd(target) + ["--output-format", "terse", "-j", str(jobs), "--export-json", out_json,
                               "--harness-timeout", f"{int(timeout_s)}s", "--exact"]
    for h in harnesses:
        cmd += ["--harness", h.full]
    t0 = time.time()
    with open(log, "w") as lf:
        lf.write("$ " + " ".join(cmd) + "\n")
        lf.flush()
        try:
            p = subprocess.run(cmd, cwd=REPO, env=env_offline(), stdout=lf, stderr=subprocess.STDOUT,
                               preexec_fn=_limit, timeout=timeout_s * (len(harnesses) // jobs + 2) + 900)
            rc = p.returncode
        except subprocess.TimeoutExpired:
            rc = -9
    wall = time.time() - t0
    results = {}
    build_ok = os.path.exists(out_json)
    if build_ok:
        try:
            d = json.load(open(out_json))
        except Exception:
            return {}, False, log, wall
        errs = {e["harness_id"]: e for e in d.get("error_details", [])}
        stats = {c["harness_id"]: (c.get("cbmc_stats") or {}) for c in d.get("cbmc", [])}
        for r in d.get("verification_results", {}).get("results", []):
            hid = r["harness_id"]
            results[hid] = {
                "status": r.get("status"),
                "duration_s": r.get("duration_ms", 0) / 1000.0,
                "checks": r.get("checks", []),
                "exit_status": errs.get(hid, {}).get("exit_status", "success"),
                "cbmc_stats": stats.get(hid, {}),
            }
    return results, build_ok, log, wall


def classify(prop, h, res):
    """-> dict(decided: bool, findings: [Finding], infra: [str], n_checks, n_obligations, covers)"""
    out = {"decided": False, "findings": [], "infra": [], "n_checks": 0, "obligations": [],
           "covers": [], "duration_s": 0.0}
    if res is None:
        out["infra"].append(f"{h.name}: harness did not run (not found or build failed)")
        return out
    out["duration_s"] = res["duration_s"]
    if res["exit_status"] == "timeout":
        out["infra"].append(f"{h.name}: CBMC timed out (undecided)")
        return out
    checks = res["checks"]
    if not checks:
        out["infra"].append(f"{h.name}: no check results (exit_status={res['exit_status']}; out of memory or CBMC error)")
        return out
    out["n_checks"] = len(checks)
    seen = set()
    expected_hit = {e: False for e in h.expect_fail}
    for c in checks:
        cat, st = c.get("category"), c.get("status")
        desc = (c.get("description") or "").strip('"')
        loc = c.get("location") or {}
        f = loc.get("file") or ""
        where = f"{f}:{loc.get('line')}"
        if cat == "cover":
            out["covers"].append({"description": desc, "status": st, "where": where})
            if st != "Satisfied":
                out["infra"].append(f"{h.name}: cover not satisfied (vacuity): {desc!r} [{st}]")
            continue
        in_verif = f.startswith("/verif/kani")
        in_repo = f.startswith(REPO + "/src") or f.startswith("src/")
        if cat == "assertion" and (in_verif or in_repo) and st == "Success":
            k = (where, desc)
            if k not in seen:
                seen.add(k)
                out["obligations"].append({"where": where.replace("/verif/kani/", "kani/"), "description": desc})
        if st in ("Success", "Unreachable", "Satisfied"):
            continue
        if cat in IGNORED_CATEGORIES:
            continue
        exp = next((e for e in h.expect_fail if e == "*" or e in desc), None)
        if st == "Failure" and cat == "assertion" and exp is not None and in_repo:
            expected_hit[exp] = True
            out["obligations"].append({"where": where, "description": "documented panic reachable: " + desc})
            continue
        if st == "Failure" and cat == "assertion":
            role = re.sub(r"\s+", "_", desc)[:80]
            site = "harness" if in_verif else ("repo:" + os.path.basename(f) if in_repo else "std")
            key = f"{h.name}:{role}"
            out["findings"].append(Finding(prop, key, f"{desc} at {where} ({site})", harness=h,
                                           detail={"check": c}))
            continue
        out["infra"].append(f"{h.name}: {cat} check {st}: {desc} at {where}")
    uniq0 = out["findings"]
    for e, hit in expected_hit.items():
        if not hit:
            # the harness asserts false after the call, so a missing panic shows up as that finding;
            # neither a panic nor a return would mean the harness is vacuous
            if not out["findings"]:
                out["infra"].append(f"{h.name}: expected panic {e!r} not reachable and call does not return (vacuous)")
    # several failed checks may share a key; keep one per key
    uniq = {}
    for f_ in out["findings"]:
        uniq.setdefault(f_.key, f_)
    out["findings"] = list(uniq.values())
    out["decided"] = not out["infra"]
    return out


PLAYBACK_CMD = ["cargo", "kani", "playback", "-Z", "concrete-playback", "--manifest-path", f"{REPO}/Cargo.toml",
                "--lib", "--no-default-features", "--", "kani_concrete_playback", "--test-threads", "1"]


def playback_env(profile):
    """`cargo kani playback` has no --release; the release profile users run is emulated by overriding
    the dev profile (opt-level 3, no debug assertions, no overflow checks)."""
    env = env_offline()
    env["CARGO_TARGET_DIR"] = os.path.join(WORK, "playback-target-" + profile)
    if profile == "release":
        env["CARGO_PROFILE_DEV_OPT_LEVEL"] = "3"
        env["CARGO_PROFILE_DEV_DEBUG_ASSERTIONS"] = "false"
        env["CARGO_PROFILE_DEV_OVERFLOW_CHECKS"] = "false"
        env["CARGO_PROFILE_TEST_OPT_LEVEL"] = "3"
        env["CARGO_PROFILE_TEST_DEBUG_ASSERTIONS"] = "false"
        env["CARGO_PROFILE_TEST_OVERFLOW_CHECKS"] = "false"
    return env


PB_TEST = re.compile(r"```\n(.*?)```", re.S)


def concrete_playback(prop, h, timeout_s):
    """Re-run one failing harness with concrete playback, then execute the generated unit tests natively
    (dev and release profile). Returns dict(tests, dev_failed, release_failed, values, log)."""
    ensure_dirs()
    target = os.path.join(WORK, f"kani-{prop}")
    log = os.path.join(WORK, "out", f"{prop}-playback-{h.name}.log")
    cmd = _base_cmd(target) + ["-Z", "concrete-playback", "--concrete-playback=print", "--exact",
                               "--harness", h.full, "--harness-timeout", f"{int(timeout_s)}s"]
    with open(log, "w") as lf:
        lf.write("$ " + " ".join(cmd) + "\n")
        lf.flush()
        try:
            # no address-space limit here: kani-driver itself needs memory to parse CBMC's trace
            subprocess.run(cmd, cwd=REPO, env=env_offline(), stdout=lf, stderr=subprocess.STDOUT,
                           timeout=timeout_s + 900)
        except subprocess.TimeoutExpired:
            pass
    text = open(log).read()
    tests, names = [], set()
    for m in PB_TEST.finditer(text):
        t = m.group(1)
        nm = re.search(r"fn (kani_concrete_playback_\w+)\(", t)
        if "kani::concrete_playback_run" in t and nm and nm.group(1) not in names:
            names.add(nm.group(1))
            tests.append(t)
    res = {"tests": tests, "dev_failed": [], "release_failed": [], "log": log, "values": []}
    if not tests:
        return res
    for t in tests:
        vals = re.findall(r"//\s*(.*)\n\s*vec!\[([0-9, ]*)\]", t)
        res["values"].append([{"shown": a.strip(), "bytes": [int(x) for x in b.split(",") if x.strip()]} for a, b in vals])
    res.update(run_playback_tests(h, tests, log))
    return res


def dedupe_tests(tests):
    out, names = [], set()
    for t in tests:
        nm = re.search(r"fn (kani_concrete_playback_\w+)\(", t)
        if nm and nm.group(1) not in names:
            names.add(nm.group(1))
            out.append(t)
    return out


def run_playback_tests(h, tests, log=None):
    """Compile the generated unit tests into the harness module (cfg(kani)+cfg(test)) and run them natively."""
    tests = dedupe_tests(tests)
    res = {"dev_failed": [], "release_failed": [], "playback_errors": []}
    inc = os.path.join(WORK, "playback", h.pbfile + ".rs")
    reset_playback_includes()
    ensure_playback_includes()
    with open(inc, "w") as f:
        f.write("use super::*;\n")
        for t in tests:
            f.write(t + "\n")
    for prof, key in (("dev", "dev_failed"), ("release", "release_failed")):
        try:
            p = subprocess.run(PLAYBACK_CMD, cwd=REPO, env=playback_env(prof), capture_output=True, text=True, timeout=1800)
            outp = p.stdout + p.stderr
        except subprocess.TimeoutExpired:
            outp = "TIMEOUT"
        if log:
            with open(log, "a") as lf:
                lf.write("\n$ [" + prof + "] " + " ".join(PLAYBACK_CMD) + "\n" + outp)
        if "test result:" not in outp:
            res["playback_errors"].append(prof + ": playback tests did not run: " + outp[-600:])
        for m in re.finditer(r"^test (\S+) \.\.\. FAILED", outp, re.M):
            res[key].append(m.group(1))
        res[key + "_panics"] = [x.replace("\n", " | ") for x in re.findall(r"panicked at ([^\n]*\n[^\n]*)", outp)[:6]]
    reset_playback_includes()
    return res
