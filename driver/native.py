"""Native confirmers for harnesses whose counterexamples cannot be replayed with kani playback
(stubbed callees). Each runs the real build through the PUBLIC API (crate /verif/replay, path
dependency on /repo) and reports whether a misbehaviour of the same kind is observable."""
import json
import os
import subprocess

from common import VERIF, WORK, env_offline

_built = False


def build():
    global _built
    env = env_offline()
    env["CARGO_TARGET_DIR"] = os.path.join(WORK, "replay-target")
    p = subprocess.run(["cargo", "build", "--release", "--offline"], cwd=os.path.join(VERIF, "replay"), env=env,
                       capture_output=True, text=True)
    _built = p.returncode == 0
    return _built, (p.stdout + p.stderr)[-1500:]


def run(sub, args=()):
    ok, out = build()
    if not ok:
        return None, {"error": "replay crate does not build against /repo", "log": out}
    exe = os.path.join(WORK, "replay-target", "release", "verif-replay")
    try:
        p = subprocess.run([exe, sub] + list(args), capture_output=True, text=True, timeout=1800)
    except subprocess.TimeoutExpired:
        return None, {"error": "native confirmer timed out"}
    try:
        info = json.loads(p.stdout.strip().splitlines()[-1])
    except Exception:
        return None, {"error": "no JSON from native confirmer", "stdout": p.stdout[-800:], "stderr": p.stderr[-800:], "rc": p.returncode}
    info["rc"] = p.returncode
    if p.returncode not in (0,):
        info["stderr"] = p.stderr[-800:]
    return info.get("violations", 0) > 0, info


def confirm(name, prop, finding):
    if name == "cli":
        import native_cli
        ok, info = native_cli.confirm_c15() if prop == "C15" else native_cli.confirm_c17() if prop == "C17" else native_cli.confirm_c16()
        return bool(ok), info
    if name == "c09":
        # early termination: the prefix-run comparison AND the bound-dominates-true-regret sweep (a driver that
        # reports a stale bound is self-consistent under the first but not under the second)
        ok1, i1 = run("c09")
        ok2, i2 = run("c02")
        return bool(ok1) or bool(ok2), {"c09": i1, "c02": i2, "violations": (i1 or {}).get("violations", 0) + (i2 or {}).get("violations", 0)}
    if name == "c12":
        # re-presentation of a game: the constructor's verdict on the tree family AND the evaluator against the oracle
        ok1, i1 = run("c11", ("table",))
        ok2, i2 = run("c01")
        return bool(ok1) or bool(ok2), {"c11": i1, "c01": i2, "violations": (i1 or {}).get("violations", 0) + (i2 or {}).get("violations", 0)}
    args = ()
    if name == "c11":
        k = getattr(finding, "key", "") or ""
        args = ("recall-action" if "ctor-recall-action" in k else "one-table" if "ctor-one-table" in k else "payoff" if "ctor-payoff" in k else "table",)
    ok, info = run(name, args)
    return bool(ok), info


def replay(d, prop):
    name = d["kind"].split(":", 1)[1]
    return confirm(name, prop, None)
