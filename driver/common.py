import json
import os
import re
import time

VERIF = "/verif"
REPO = "/repo"
WORK = os.path.join(VERIF, ".work")
EVID = os.path.join(VERIF, "evidence")
REPLAYS = os.path.join(VERIF, "replays")
KNOWN = os.path.join(VERIF, "known_findings.txt")


def env_offline():
    env = dict(os.environ)
    env["CARGO_NET_OFFLINE"] = "true"
    env.setdefault("CARGO_TERM_COLOR", "never")
    return env


def seed():
    try:
        return int(os.environ.get("VERIF_SEED", "0"))
    except ValueError:
        return 0


def ensure_dirs():
    for d in (WORK, EVID, REPLAYS, os.path.join(WORK, "out"), os.path.join(WORK, "playback")):
        os.makedirs(d, exist_ok=True)


def repo_head():
    import subprocess
    try:
        h = subprocess.run(["git", "-C", REPO, "rev-parse", "--short", "HEAD"], capture_output=True, text=True).stdout.strip()
        dirty = subprocess.run(["git", "-C", REPO, "status", "--porcelain", "--untracked-files=no"], capture_output=True, text=True).stdout.strip()
        return h + ("+dirty" if dirty else "")
    except Exception:
        return "unknown"


class Finding:
    """One failing obligation, before/after native confirmation."""

    def __init__(self, prop, key, what, harness=None, detail=None):
        self.prop = prop
        self.key = key          # stable role key: <harness>:<assertion role>
        self.what = what        # human text
        self.harness = harness
        self.detail = detail or {}
        self.confirmed = None   # True reproduced natively / False not reproduced / None not attempted
        self.replay_path = None


def load_known():
    """known_findings.txt lines:
       known: property=<id> key=<role key> <free text>
       fixed: property=<id> <commit> <free text>         (suppresses nothing)
    """
    known = []
    if not os.path.exists(KNOWN):
        return known
    for line in open(KNOWN):
        line = line.strip()
        if not line or line.startswith("#"):
            continue
        m = re.match(r"known:\s+property=(\S+)\s+key=(\S+)\s+(.*)$", line)
        if m:
            known.append({"property": m.group(1), "key": m.group(2), "text": m.group(3)})
    return known


def write_evidence(prop, tier, level, coverage, assumptions, wall_s, violations):
    ensure_dirs()
    ev = {
        "property_id": prop,
        "tier": tier,
        "seed": seed(),
        "level": level,
        "coverage": coverage,
        "assumptions": assumptions,
        "wall_s": round(wall_s, 2),
        "violations": violations,
        "repo_head": repo_head(),
        "written_at": time.strftime("%Y-%m-%dT%H:%M:%SZ", time.gmtime()),
    }
    path = os.path.join(EVID, prop + ".json")
    tmp = path + ".tmp"
    with open(tmp, "w") as f:
        json.dump(ev, f, indent=1, sort_keys=False)
        f.write("\n")
    os.replace(tmp, path)
    return path
