"""Native confirmation for E2 (mirsmt) findings: build the real `cfr` binary from /repo and run it on
small generated game files; evaluate what it prints with an independent (pure Python) evaluator of
the file's game. Confirmation only: it never decides a property."""
import json
import os
import subprocess

from common import REPO, WORK, env_offline

TGT = os.path.join(WORK, "cli-target")
DIR = os.path.join(WORK, "cli-games")

# a 3x2 simultaneous-move game (player two does not observe player one's move); a3 is dominated
A = [[3.0, -1.0], [-2.0, 4.0], [-3.0, -2.0]]
ROWS = ["a1", "a2", "a3"]
COLS = ["b1", "b2"]


def build():
    p = subprocess.run(["cargo", "build", "--offline", "--manifest-path", f"{REPO}/Cargo.toml", "--target-dir", TGT],
                       env=env_offline(), capture_output=True, text=True)
    exe = os.path.join(TGT, "debug", "cfr")
    return (exe if p.returncode == 0 and os.path.exists(exe) else None), (p.stderr or "")[-800:]


def write_games(const_sum):
    os.makedirs(DIR, exist_ok=True)
    # JSON: zero-sum payoffs u1 - const_sum/2 are NOT used; the JSON file is the zero-sum game A itself
    def pl2(i):
        return {"player": {"player_one": False, "infoset": "q", "actions": {COLS[j]: {"terminal": A[i][j]} for j in range(2)}}}
    js = {"player": {"player_one": True, "infoset": "p", "actions": {ROWS[i]: pl2(i) for i in range(3)}}}
    json.dump(js, open(os.path.join(DIR, "game.json"), "w"))
    # Gambit: constant-sum: u1 = A + c/2, u2 = c/2 - A
    lines = ['EFG 2 R "seed" { "P1" "P2" }', '""', 'p "" 1 1 "p" { "a1" "a2" "a3" } 0']
    k = 0
    for i in range(3):
        lines.append('p "" 2 1 "q" { "b1" "b2" } 0')
        for j in range(2):
            k += 1
            lines.append(f't "" {k} "" {{ {A[i][j] + const_sum / 2}, {const_sum / 2 - A[i][j]} }}')
    open(os.path.join(DIR, "game.efg"), "w").write("\n".join(lines) + "\n")


def run_cli(exe, args, stdin_file=None, timeout=120):
    inp = open(stdin_file).read() if stdin_file else None
    try:
        p = subprocess.run([exe] + args, input=inp, capture_output=True, text=True, timeout=timeout)
    except subprocess.TimeoutExpired:
        return -9, None, "timed out"
    out = None
    if p.returncode == 0:
        try:
            out = json.loads(p.stdout)
        except Exception:  # noqa: BLE001
            out = None
    return p.returncode, out, p.stderr[-300:]


def evaluate(out):
    """independent evaluation of the printed strategies on the matrix game (zero-sum part)"""
    x = [out["player_one_strategy"].get("p", {}).get(r, 0.0) for r in ROWS]
    y = [out["player_two_strategy"].get("q", {}).get(c, 0.0) for c in COLS]
    u = sum(x[i] * y[j] * A[i][j] for i in range(3) for j in range(2))
    br1 = max(sum(y[j] * A[i][j] for j in range(2)) for i in range(3))
    br2 = max(-sum(x[i] * A[i][j] for i in range(3)) for j in range(2))
    return {"u1": u, "r1": max(br1 - u, 0.0), "r2": max(br2 + u, 0.0), "sx": sum(x), "sy": sum(y)}


def close(a, b, tol=1e-6):
    return abs(a - b) <= tol * (1 + abs(a) + abs(b))


def confirm_c15():
    exe, err = build()
    if exe is None:
        return None, {"error": "cfr binary does not build", "log": err}
    c = 10.0
    write_games(c)
    bad = []
    runs = 0
    for fname, const in (("game.json", 0.0), ("game.efg", c)):
        for clip in ("0", "0.1", "0.3"):
            for d, t in (("vanilla", "100"), ("dcfr", "60"), ("vanilla", "7")):
                runs += 1
                rc, out, se = run_cli(exe, ["-i", os.path.join(DIR, fname), "-m", "full", "-p", "1", "-d", d, "-t", t, "-c", clip])
                if rc != 0 or out is None:
                    bad.append(f"{fname} -c {clip} -d {d} -t {t}: exit {rc} {se}")
                    continue
                e = evaluate(out)
                checks = [
                    ("strategies sum to one", close(e["sx"], 1.0) and close(e["sy"], 1.0)),
                    ("player_one_utility", close(out["player_one_utility"], e["u1"] + const / 2)),
                    ("player_two_utility (own payoffs; the two add up to the constant)", close(out["player_two_utility"], const / 2 - e["u1"])),
                    ("player_one_regret", close(out["player_one_regret"], e["r1"])),
                    ("player_two_regret", close(out["player_two_regret"], e["r2"])),
                    ("regret", close(out["regret"], max(e["r1"], e["r2"]))),
                ]
                for name, ok in checks:
                    if not ok:
                        bad.append(f"{fname} -c {clip} -d {d} -t {t}: printed {name} disagrees with the independent evaluation of the printed strategies")
    return bool(bad), {"runs": runs, "violations": len(bad), "examples": bad[:5]}


def confirm_c16():
    import native
    exe, err = build()
    if exe is None:
        return None, {"error": "cfr binary does not build", "log": err}
    write_games(0.0)
    ok, lib = native.run("cli16")
    if not isinstance(lib, dict) or "solutions" not in lib:
        return None, {"error": "replay crate gave no library solutions", "info": lib}
    bad = []
    runs = 0
    jf, ef = os.path.join(DIR, "game.json"), os.path.join(DIR, "game.efg")
    cg = os.path.join(DIR, "chance_game.json")
    open(os.path.join(DIR, "efg_named.json"), "w").write(open(ef).read())
    open(os.path.join(DIR, "json_named.efg"), "w").write(open(jf).read())
    open(os.path.join(DIR, "plain.txt"), "w").write(open(ef).read())

    def vec(out):
        x = [out["player_one_strategy"].get(i, {}).get(r, 0.0) for i in ("p", "r") for r in ROWS]
        y = [out["player_two_strategy"].get("q", {}).get(c, 0.0) for c in COLS]
        return x + y
    for key, sol in lib["solutions"].items():
        method, preset, t, thr = key.split("|")
        for route in ("file", "stdin", "stdin-flag", "out-file"):
            runs += 1
            args = ["-m", method, "-p", "1", "-d", preset, "-t", t, "-r", thr]
            stdin, outp = None, None
            if route == "file":
                args += ["-i", cg]
            elif route == "stdin":
                stdin = cg
            elif route == "stdin-flag":
                stdin = cg
                args += ["--input-format", "json"]
            else:
                outp = os.path.join(DIR, "out.json")
                args += ["-i", cg, "-o", outp]
            rc, out, se = run_cli(exe, args, stdin)
            if outp and rc == 0:
                try:
                    out = json.load(open(outp))
                except Exception:  # noqa: BLE001
                    out = None
            if rc != 0 or out is None:
                bad.append(f"{key} via {route}: exit {rc} {se}")
            elif not all(close(a, b, 1e-9) for a, b in zip(vec(out), sol)):
                bad.append(f"{key} via {route}: printed strategies differ from Game::solve with the documented meaning of the options")
    # a JSON and a Gambit encoding of the same (chance-free) game give the same solution
    for d in ("vanilla", "dcfr", "dcfr-prune"):
        runs += 1
        r1 = run_cli(exe, ["-i", jf, "-m", "full", "-p", "1", "-d", d, "-t", "40"])
        r2 = run_cli(exe, ["--input-format", "gambit", "-m", "full", "-p", "1", "-d", d, "-t", "40"], ef)
        if r1[1] is None or r2[1] is None or r1[1]["player_one_strategy"] != r2[1]["player_one_strategy"] or r1[1]["player_two_strategy"] != r2[1]["player_two_strategy"]:
            bad.append(f"-d {d}: JSON and Gambit encodings of the same game give different solutions")
    # format selection by flag / extension / content
    table = [
        (["-i", os.path.join(DIR, "efg_named.json")], False, "a .json file is parsed as JSON even if it holds Gambit text"),
        (["-i", os.path.join(DIR, "json_named.efg")], False, "a .efg file is parsed as Gambit even if it holds JSON"),
        (["-i", os.path.join(DIR, "efg_named.json"), "--input-format", "gambit"], True, "--input-format overrides the extension"),
        (["-i", os.path.join(DIR, "json_named.efg"), "--input-format", "json"], True, "--input-format overrides the extension"),
        (["-i", os.path.join(DIR, "plain.txt")], True, "other extensions are auto-detected from the content"),
    ]
    for args, should_work, why in table:
        runs += 1
        rc, out, se = run_cli(exe, args + ["-m", "full", "-p", "1", "-t", "5"])
        if (rc == 0 and out is not None) != should_work:
            bad.append(f"format selection: {why} (exit {rc})")
    # clip: pruned profile printed exactly when strictly better
    for clip in ("0.1", "0.3", "0.9"):
        runs += 1
        rc0, o0, _ = run_cli(exe, ["-i", jf, "-m", "full", "-p", "1", "-d", "vanilla", "-t", "100"])
        rc1, o1, _ = run_cli(exe, ["-i", jf, "-m", "full", "-p", "1", "-d", "vanilla", "-t", "100", "-c", clip])
        if o0 is None or o1 is None:
            bad.append(f"-c {clip}: run failed")
            continue
        e1 = evaluate(o1)
        if not (close(e1["sx"], 1.0) and close(e1["sy"], 1.0)):
            bad.append(f"-c {clip}: printed profile is not a valid profile")
        if max(e1["r1"], e1["r2"]) > o0["regret"] + 1e-9:
            bad.append(f"-c {clip}: a profile with higher regret than the unpruned one was printed")
    # -t 0 means unlimited: with a reachable threshold it must run until the threshold
    runs += 1
    rc, out, se = run_cli(exe, ["-i", jf, "-m", "full", "-p", "1", "-d", "vanilla", "-t", "0", "-r", "0.05"], timeout=30)
    if rc != 0 or out is None or not (out["regret"] < 0.05):
        bad.append(f"-t 0 -r 0.05: did not run until the regret threshold and stop there (exit {rc} {se})")
    # -r stops early: a huge threshold must give the one-iteration result
    runs += 1
    r1 = run_cli(exe, ["-i", jf, "-m", "full", "-p", "1", "-d", "vanilla", "-t", "1"])
    r2 = run_cli(exe, ["-i", jf, "-m", "full", "-p", "1", "-d", "vanilla", "-t", "500", "-r", "1000"])
    if r1[1] is None or r2[1] is None or r1[1] != r2[1]:
        bad.append("-t 500 -r 1000 does not print what -t 1 prints (the regret threshold is not what stops the solve)")
    return bool(bad), {"runs": runs, "violations": len(bad), "examples": bad[:5]}


def confirm_c17():
    """corrupted game files under every input route: non-zero exit, a documented diagnostic on stderr, no result object"""
    exe, err = build()
    if exe is None:
        return None, {"error": "cfr binary does not build", "log": err}
    d = os.path.join(DIR, "c17")
    os.makedirs(d, exist_ok=True)
    T = {"terminal": 1.0}

    def pl(one, info, acts):
        return {"player": {"player_one": one, "infoset": info, "actions": acts}}

    def ch(outs, info=None):
        c = {"outcomes": {k: {"prob": p, "state": s} for k, (p, s) in outs.items()}}
        if info is not None:
            c["infoset"] = info
        return {"chance": c}
    valid_json = pl(True, "a", {"l": ch({"x": (1.0, T), "y": (3.0, {"terminal": -1.0})}), "r": pl(False, "b", {"u": T, "d": {"terminal": 2.0}})})
    bad_json = {
        "truncated": '{"player": {"player_one": true, "infoset": "a", "actions": {',
        "missing-field": json.dumps({"player": {"player_one": True, "actions": {"l": T, "r": T}}}),
        "wrong-type": json.dumps({"player": {"player_one": "yes", "infoset": "a", "actions": {"l": T, "r": T}}}),
        "renamed-field": json.dumps({"player": {"player_one": True, "infoset": "a", "moves": {"l": T, "r": T}}}),
        "payoff-string": json.dumps({"terminal": "1.0"}),
        "zero-probability": json.dumps(pl(True, "a", {"l": ch({"x": (0.0, T), "y": (1.0, T)}), "r": T})),
        "negative-probability": json.dumps(pl(True, "a", {"l": ch({"x": (-1.0, T), "y": (1.0, T)}), "r": T})),
        "empty-chance": json.dumps(pl(True, "a", {"l": {"chance": {"outcomes": {}}}, "r": T})),
        "empty-player": json.dumps(pl(True, "a", {})),
        "actions-differ": json.dumps(pl(False, "r", {"l": pl(True, "a", {"x": T, "y": T}), "r": pl(True, "a", {"x": T, "z": T})})),
        "imperfect-recall": json.dumps(pl(True, "t", {"l": pl(True, "s", {"x": T, "y": T}), "r": pl(False, "q", {"m": pl(True, "s", {"x": T, "y": T}), "n": T})})),
        "forgot-own-action": json.dumps(pl(True, "t", {"l": pl(True, "s", {"x": T, "y": T}), "r": pl(True, "s", {"x": T, "y": T})})),
        "chance-probabilities-differ": json.dumps(pl(True, "t", {"l": ch({"x": (1.0, T), "y": (1.0, T)}, "c"), "r": ch({"x": (1.0, T), "y": (2.0, T)}, "c")})),
        "huge-payoff": '{"terminal": 1e999}',
    }
    efg_head = 'EFG 2 R "g" { "P1" "P2" }\n""\n'
    valid_efg = efg_head + 'p "" 1 1 "a" { "l" "r" } 0\nt "" 1 "" { 1, -1 }\nt "" 2 "" { -2, 2 }\n'
    bad_efg = {
        "truncated": 'EFG 2 R "g" { "P1" "P2"',
        "three-players": 'EFG 2 R "g" { "P1" "P2" "P3" }\n""\np "" 1 1 "a" { "l" "r" } 0\nt "" 1 "" { 1, -1, 0 }\nt "" 2 "" { -2, 2, 0 }\n',
        "one-player": 'EFG 2 R "g" { "P1" }\n""\np "" 1 1 "a" { "l" "r" } 0\nt "" 1 "" { 1 }\nt "" 2 "" { 2 }\n',
        "not-constant-sum": efg_head + 'p "" 1 1 "a" { "l" "r" } 0\nt "" 1 "" { 1, -1 }\nt "" 2 "" { -2, 5 }\n',
        "not-constant-sum-offset": efg_head + 'p "" 1 1 "a" { "l" "r" } 0\nt "" 1 "" { 100, -100 }\nt "" 2 "" { 101, -100.9 }\n',
        "not-constant-sum-offset-negative": efg_head + 'p "" 1 1 "a" { "l" "r" } 0\nt "" 1 "" { -100, 100 }\nt "" 2 "" { -101, 100.9 }\n',
        "zero-probability": efg_head + 'c "" 1 "c" { "x" 0 "y" 1 } 0\nt "" 1 "" { 1, -1 }\nt "" 2 "" { -2, 2 }\n',
        "actions-differ": efg_head + 'p "" 2 1 "r" { "l" "r" } 0\np "" 1 1 "a" { "x" "y" } 0\nt "" 1 "" { 1, -1 }\nt "" 2 "" { 2, -2 }\np "" 1 1 "a" { "x" "z" } 0\nt "" 3 "" { 1, -1 }\nt "" 4 "" { 2, -2 }\n',
        "garbage": "this is not a game file\n",
    }
    anchors = ("#json-error", "#gambit-error", "#auto-error", "#game-error", "#constant-sum", "#duplicate-infosets", "only supports two player", "non-finite payoffs")
    bad, runs = [], 0

    def attempt(label, path, text, extra):
        nonlocal runs
        runs += 1
        args = list(extra) + ["-m", "full", "-p", "1", "-t", "5"]
        stdin = None
        if path is None:
            stdin = os.path.join(d, "stdin.txt")
            open(stdin, "w").write(text)
        else:
            open(path, "w").write(text)
            args = ["-i", path] + args
        try:
            inp = open(stdin).read() if stdin else None
            p = subprocess.run([exe] + args, input=inp, capture_output=True, text=True, timeout=60)
        except subprocess.TimeoutExpired:
            bad.append(f"{label}: timed out")
            return
        if p.returncode == 0:
            bad.append(f"{label}: exit status 0" + (" and a result object was printed" if p.stdout.strip().startswith("{") else ""))
        elif p.stdout.strip():
            bad.append(f"{label}: exit status {p.returncode} but something was printed on stdout")
        elif not any(a in p.stderr for a in anchors):
            bad.append(f"{label}: exit status {p.returncode} but no documented diagnostic on stderr: {p.stderr.strip()[-120:]}")
    for name, text in bad_json.items():
        attempt(f"JSON {name} by extension", os.path.join(d, "g.json"), text, [])
        attempt(f"JSON {name} --input-format json on stdin", None, text, ["--input-format", "json"])
        attempt(f"JSON {name} auto-detected on stdin", None, text, [])
    for name, text in bad_efg.items():
        attempt(f"Gambit {name} by extension", os.path.join(d, "g.efg"), text, [])
        attempt(f"Gambit {name} --input-format gambit on stdin", None, text, ["--input-format", "gambit"])
        attempt(f"Gambit {name} auto-detected on stdin", None, text, [])
    attempt("valid JSON read as Gambit", None, json.dumps(valid_json), ["--input-format", "gambit"])
    attempt("valid Gambit read as JSON", None, valid_efg, ["--input-format", "json"])
    # positive controls: the valid files are solved
    offset_efg = efg_head + 'p "" 1 1 "a" { "l" "r" } 0\nt "" 1 "" { 100, -99 }\nt "" 2 "" { 101, -100 }\n'
    for label, text, extra in (("valid JSON", json.dumps(valid_json), ["--input-format", "json"]), ("valid Gambit", valid_efg, ["--input-format", "gambit"]), ("valid JSON auto", json.dumps(valid_json), []),
                               ("valid Gambit with offset payoffs", offset_efg, ["--input-format", "gambit"])):
        runs += 1
        open(os.path.join(d, "stdin.txt"), "w").write(text)
        rc, out, se = run_cli(exe, extra + ["-m", "full", "-p", "1", "-t", "5"], os.path.join(d, "stdin.txt"))
        if rc != 0 or out is None:
            bad.append(f"{label}: a valid file was not solved (exit {rc} {se[-100:]})")
    return bool(bad), {"runs": runs, "violations": len(bad), "examples": bad[:6]}
