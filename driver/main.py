import argparse
import hashlib
import json
import os
import sys
import time

import kani_engine as ke
from common import REPLAYS, VERIF, Finding, ensure_dirs, load_known, seed, write_evidence
from registry import REGISTRY

TIER_TIMEOUT = {"quick": 900, "thorough": 3600}


def log(*a):
    print(*a, flush=True)


def save_replay(prop, f, payload):
    ensure_dirs()
    h = hashlib.sha1((f.key + json.dumps(payload, sort_keys=True, default=str)).encode()).hexdigest()[:10]
    path = os.path.join(REPLAYS, f"{prop}-{h}.json")
    with open(path, "w") as fh:
        json.dump(payload, fh, indent=1, default=str)
    f.replay_path = path
    return path


_PB_CACHE = {}


def confirm(prop, f, timeout_s):
    """Native confirmation of one solver counterexample."""
    h = f.harness
    payload = {"property": prop, "key": f.key, "what": f.what, "harness": h.full if h else None}
    if h is not None and h.playback:
        if h.full not in _PB_CACHE:
            _PB_CACHE[h.full] = ke.concrete_playback(prop, h, timeout_s)
        pb = _PB_CACHE[h.full]
        payload.update({"kind": "kani-playback", "tests": pb["tests"], "values": pb["values"],
                        "dev_failed": pb["dev_failed"], "release_failed": pb["release_failed"],
                        "panics": pb.get("dev_failed_panics", []), "log": pb["log"]})
        f.confirmed = bool(pb["dev_failed"]) or bool(pb["release_failed"])
        if not pb["tests"]:
            f.confirmed = False
            payload["note"] = "concrete playback produced no test (counterexample could not be concretised)"
            if h.native:
                # concrete playback can be far more expensive than the check itself (no slicing): fall back
                # to the native public-API confirmer registered for this harness
                import native
                if ("native", h.native) not in _PB_CACHE:
                    _PB_CACHE[("native", h.native)] = native.confirm(h.native, prop, f)
                ok, info = _PB_CACHE[("native", h.native)]
                payload.update({"kind": "native:" + h.native, "native": info})
                f.confirmed = ok
    elif (h is not None and h.native) or getattr(f, "native_kind", None):
        import native
        nk = h.native if h is not None else f.native_kind
        ck = ("native", nk, f.key if nk == "c11" else "")     # c11's confirmer runs the tree family that belongs to the finding
        if ck not in _PB_CACHE:
            _PB_CACHE[ck] = native.confirm(nk, prop, f)
        ok, info = _PB_CACHE[ck]
        payload.update({"kind": "native:" + nk, "native": info, "solver_model": (f.detail or {}).get("smt")})
        f.confirmed = ok
    else:
        payload["kind"] = "none"
        f.confirmed = None
    save_replay(prop, f, payload)
    return f.confirmed


def run_property(prop, tier):
    t0 = time.time()
    spec = REGISTRY[prop]
    known = [k for k in load_known() if k["property"] == prop]
    findings, infra = [], []
    per_harness = []
    total_checks = 0
    obligations = []
    solver_s = 0.0
    extra_cov = {}

    hs = [h for h in spec.get("harnesses", []) if h.tier == "quick" or tier == "thorough"]
    if hs:
        tmo = spec.get("timeout", {}).get(tier, TIER_TIMEOUT[tier])
        results, build_ok, logp, wall = ke.run_harnesses(prop, tier, hs, tmo)
        if not build_ok:
            infra.append(f"Kani build/run failed, see {logp}")
        for h in hs:
            cls = ke.classify(prop, h, results.get(h.full))
            findings += cls["findings"]
            infra += cls["infra"]
            total_checks += cls["n_checks"]
            solver_s += cls["duration_s"]
            for o in cls["obligations"]:
                obligations.append((h.name, o["where"], o["description"]))
            st = (results.get(h.full) or {}).get("cbmc_stats") or {}
            per_harness.append({
                "harness": h.full, "role": h.role, "functions": h.functions, "bounds": h.bounds,
                "stubs": h.stubs, "assumes": h.assumes,
                "verdict": ("undecided" if cls["infra"] else ("counterexample" if cls["findings"] else "holds within bounds")),
                "cbmc_checks": cls["n_checks"], "obligations_proved": len(cls["obligations"]),
                "covers_satisfied": [c["description"] for c in cls["covers"] if c["status"] == "Satisfied"],
                "verification_s": round(cls["duration_s"], 2),
                "symex_s": st.get("runtime_symex_s"), "solver_s": st.get("runtime_solver_s"),
                "vccs": st.get("vccs_generated"),
            })

    for part in spec.get("parts", []):
        r = part(prop, tier)
        findings += r.get("findings", [])
        infra += r.get("infra", [])
        total_checks += r.get("evaluations", 0)
        obligations += r.get("obligations", [])
        solver_s += r.get("solver_s", 0.0)
        per_harness += r.get("units", [])
        extra_cov.update(r.get("coverage", {}))

    # native confirmation of every counterexample
    violations, known_hits, unconfirmed = [], [], []
    for f in findings:
        k = next((k for k in known if k["key"] == f.key), None)
        if k is not None and tier == "quick":
            # a listed finding was confirmed natively when it was recorded; the quick tier does not
            # spend minutes re-confirming it (the thorough tier does)
            known_hits.append((f, k))
            continue
        if f.confirmed is None:
            confirm(prop, f, spec.get("timeout", {}).get(tier, TIER_TIMEOUT[tier]))
        if f.confirmed:
            (known_hits if k else violations).append((f, k))
        else:
            unconfirmed.append(f)

    for f, k in known_hits:
        log(f"KNOWN-FINDING: property={prop} {k['text']} [{f.key}]")
    for f in unconfirmed:
        infra.append(f"counterexample for {f.key} did not reproduce natively ({f.what}); replay={f.replay_path}")
    for f, _ in violations:
        log(f"VIOLATION property={prop} replay={f.replay_path}")
        log(f"  what: {f.what}  key={f.key}")
    for i in infra:
        log(f"INCONCLUSIVE: {i}")

    distinct = sorted(set(obligations))
    samples = [{"harness": u["harness"], "role": u["role"], "bounds": u["bounds"],
                "witnessed_regions": u.get("covers_satisfied", [])} for u in per_harness][:12]
    coverage = {
        "evaluations": total_checks,
        "distinct_nontrivial": len(distinct),
        "rule": ("evaluations = individual solver-decided checks (CBMC properties / SMT queries) over the symbolic "
                 "inputs of all harnesses of this tier; distinct_nontrivial = distinct reachable assertion "
                 "obligations (harness oracle assertions and panic sites inside /repo/src, by location+text) that "
                 "the solver proved for every input within the stated bounds; vacuity is excluded by cover "
                 "witnesses that must be SATISFIED"),
        "samples": samples or [{"note": "no unit ran"}],
        "units": per_harness,
        "functions_encoded": sorted({fn for u in per_harness for fn in u.get("functions", [])}),
        "queries_discharged": len(distinct),
        "solver_time_s": round(solver_s, 2),
        "undecided": infra,
        "known_findings_hit": [k["key"] for _, k in known_hits],
        "explanation": spec.get("explanation", ""),
        "exhaustive": False,
    }
    coverage.update(extra_cov)
    assumptions = list(spec.get("assumptions", []))
    for u in per_harness:
        for s in u.get("stubs", []):
            assumptions.append(f"stub in {u['harness']}: {s}")
        for s in u.get("assumes", []):
            assumptions.append(f"assume in {u['harness']}: {s}")
    path = write_evidence(prop, tier, spec.get("level", "model_checking"), coverage, assumptions,
                          time.time() - t0, len(violations))
    log(f"{prop} [{tier}]: {len(per_harness)} units, {total_checks} solver checks, {len(distinct)} obligations proved, "
        f"{len(violations)} violations, {len(known_hits)} known findings, {len(infra)} inconclusive; evidence {path}")
    if violations:
        return 1
    if infra:
        return 2
    return 0


def do_replay(prop, path):
    d = json.load(open(path))
    spec = REGISTRY[prop]
    if d.get("kind") == "kani-playback":
        h = next((h for h in spec.get("harnesses", []) if h.full == d.get("harness")), None)
        if h is None:
            log("harness of this replay no longer exists")
            return 2
        r = ke.run_playback_tests(h, d["tests"])
        for prof in ("dev", "release"):
            bad = r[prof + "_failed"]
            log(prof + ": " + (f"REPRODUCED ({len(bad)} failing playback tests)" if bad else "not reproduced"))
            for x in r.get(prof + "_failed_panics", [])[:4]:
                log("   " + x)
        for e in r["playback_errors"]:
            log("ERROR " + e)
        if r["playback_errors"]:
            return 2
        failed = bool(r["dev_failed"] or r["release_failed"])
        if failed:
            log(f"VIOLATION property={prop} replay={path}")
            return 1
        return 0
    if str(d.get("kind", "")).startswith("native:"):
        import native
        ok, info = native.replay(d, prop)
        log(json.dumps(info, indent=1, default=str))
        if ok:
            log(f"VIOLATION property={prop} replay={path}")
            return 1
        return 0
    log("replay file has no executable part")
    return 2


def main(argv):
    ap = argparse.ArgumentParser(prog="check")
    ap.add_argument("property")
    ap.add_argument("--tier", default=os.environ.get("VERIF_TIER", "quick"), choices=["quick", "thorough"])
    ap.add_argument("--replay")
    a = ap.parse_args(argv)
    if a.property not in REGISTRY:
        log(f"unknown or not-applicable property {a.property}")
        return 2
    ensure_dirs()
    # one run per property at a time (shared target dir for that property)
    import fcntl
    lock = open(os.path.join(VERIF, ".work", f"lock-{a.property}"), "w")
    fcntl.flock(lock, fcntl.LOCK_EX)
    try:
        if a.replay:
            return do_replay(a.property, a.replay)
        return run_property(a.property, a.tier)
    except Exception:  # noqa: BLE001  -- a defect of the machinery is never a verdict about the property
        import traceback
        traceback.print_exc()
        log("INCONCLUSIVE: internal error of the checking machinery (see traceback); no verdict")
        return 2
