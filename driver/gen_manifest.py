#!/usr/bin/env python3
"""Regenerate /verif/MANIFEST.json from the registry (single source of truth)."""
import json
import os
import subprocess
import sys

sys.path.insert(0, os.path.dirname(os.path.abspath(__file__)))
from registry import REGISTRY, NOT_APPLICABLE, MANIFEST_TEXT  # noqa: E402

ALL = [f"C{i:02d}" for i in range(1, 20)]


def hook_commits():
    out = subprocess.run(["git", "-C", "/repo", "log", "--format=%H %s"], capture_output=True, text=True).stdout
    return [l.split()[0] for l in out.splitlines() if l.split(" ", 1)[1].startswith("verif hook")]


def main():
    checks = []
    for pid in ALL:
        if pid not in REGISTRY:
            continue
        t = MANIFEST_TEXT[pid]
        checks.append({
            "property_id": pid,
            "quick_cmd": f"./check {pid} --tier quick",
            "thorough_cmd": f"./check {pid} --tier thorough",
            "evidence_file": f"/verif/evidence/{pid}.json",
            "replay_cmd_template": f"./check {pid} --replay {{path}}",
            "engine": t.get("engine", "kani"),
            "level_claimed": {"category": REGISTRY[pid].get("level", "model_checking"), "text": t["text"],
                              "design_ref": t.get("design_ref", f"DESIGN.md section 5, {pid}")},
            "level_note": t["note"],
            "technique": t["technique"],
        })
    na = [{"property_id": p, "reason": NOT_APPLICABLE[p]} for p in ALL if p not in REGISTRY]
    m = {
        "version": 1,
        "setup_cmd": "./setup.sh",
        "hooks": {
            "guard": "cfg(kani)",
            "enable": "set only by the Kani compiler: cargo kani --manifest-path /repo/Cargo.toml --lib --no-default-features (harness sources are pulled in from /verif/kani by #[cfg(kani)] #[path] mod lines)",
            "baseline_off_cmd": "cd /repo && cargo test --workspace --no-fail-fast --offline",
            "source_commits": hook_commits(),
            "add_only": True,
        },
        "engines": [
            {"name": "kani", "path": "/verif/driver/kani_engine.py", "serves_properties": [c["property_id"] for c in checks if c["engine"] in ("kani", "kani+mirsmt")],
             "kind_free_text": "Kani 0.68 / CBMC 6.11 (CaDiCaL): bounded symbolic execution of the compiled crate; harnesses in /verif/kani are compiled inside the crate under cfg(kani); counterexamples are replayed natively with kani concrete playback (dev and release-like profile) before being reported"},
            {"name": "mirsmt", "path": "/verif/mirsmt", "serves_properties": [c["property_id"] for c in checks if "mirsmt" in c["engine"]],
             "kind_free_text": "MIR -> SMT-LIB symbolic execution of acyclic glue code (CLI main, dispatch), decided by z3, cross-checked with cvc5"},
        ],
        "checks": checks,
        "not_applicable": na,
        "notes": "All checks rebuild from /repo's working tree. Exit 0 = held within the stated bounds; 1 = VIOLATION (natively reproduced); 2 = inconclusive (timeout, OOM, vacuous harness, non-reproducing counterexample) and never a success. See DESIGN.md.",
    }
    with open("/verif/MANIFEST.json", "w") as f:
        json.dump(m, f, indent=1)
        f.write("\n")
    print(f"{len(checks)} checks, {len(na)} not applicable")


if __name__ == "__main__":
    main()
