"""Typed translation of executor terms to SMT-LIB2 (sorts: V uninterpreted, F = Float64, Int, Bool)."""
import re
import subprocess
import time

FP = "(_ FloatingPoint 11 53)"


class Ctx:
    def __init__(self, args_fields, enums):
        self.args_fields = args_fields     # idx -> (name, rust type)
        self.enums = enums                 # enum name -> [variants]
        self.decls = {}                    # smt name -> declaration text
        self.consts = {}
        self.sym_sorts = {}                # symbol name -> sort, fixed before anything is translated

    def sort_of_rust(self, ty):
        ty = (ty or "").strip()
        if ty == "f64":
            return "F"
        if ty in ("u64", "usize", "isize", "u32", "i64", "u8"):
            return "Int"
        if ty == "bool":
            return "Bool"
        base = ty.split("::")[-1]
        if base in self.enums:
            return "Int"
        return "V"

    def smt_sort(self, s):
        return {"F": FP, "Int": "Int", "Bool": "Bool", "V": "V"}[s]

    def sym(self, name, sort):
        n = "s_" + re.sub(r"[^A-Za-z0-9_]", "_", name)
        self.decls[n] = f"(declare-const {n} {self.smt_sort(sort)})"
        return n

    def uf(self, name, argsorts, ret):
        n = "f_" + re.sub(r"[^A-Za-z0-9_]", "_", name) + "_" + "".join(a[0] for a in argsorts) + "_" + ret[0]
        self.decls[n] = f"(declare-fun {n} ({' '.join(self.smt_sort(a) for a in argsorts)}) {self.smt_sort(ret)})"
        return n

    # -> (smt text, sort)
    def tr(self, t, want=None):
        k = t[0]
        if k == "const":
            c = t[1]
            m = re.fullmatch(r"(-?\d+)_(u64|usize|isize|u32|i64|u8)", c)
            if m:
                return m.group(1), "Int"
            if "u64>::MAX" in c:
                return "18446744073709551615", "Int"
            if c in ("true", "false"):
                return c, "Bool"
            m = re.fullmatch(r"(-?[\d.]+(?:e-?\d+)?)f64", c)
            if m:
                return f"((_ to_fp 11 53) RNE {m.group(1)})", "F"
            fc = {"f64>::INFINITY": "(_ +oo 11 53)", "f64>::NEG_INFINITY": "(_ -oo 11 53)", "f64>::NAN": "(_ NaN 11 53)",
                  "f64>::MAX": "(fp #b0 #b11111111110 #xfffffffffffff)", "f64>::MIN_POSITIVE": "(fp #b0 #b00000000001 #x0000000000000)",
                  "f64>::EPSILON": "(fp #b0 #b01111001011 #x0000000000000)"}
            for k_, v_ in fc.items():
                if c.endswith(k_) or c.endswith(k_.replace("f64>", "f64")):
                    return v_, "F"
            return self.sym("const_" + c, want or "V"), want or "V"
        if k == "sym":
            so = self.sym_sorts.get(t[1], want or "V")
            self.sym_sorts.setdefault(t[1], so)
            return self.sym(t[1], so), so
        if k == "variant":
            vs = self.enums.get(t[1])
            if vs and t[2] in vs:
                return str(vs.index(t[2])), "Int"
            return self.sym(f"variant_{t[1]}_{t[2]}", "Int"), "Int"
        if k == "field":
            base = t[1]
            if base[0] == "call" and "Parser>::parse" in base[1]:
                name, ty = self.args_fields[t[2]]
                s = self.sort_of_rust(ty)
                return self.sym("args." + name, s), s
            b, bs = self.tr(base)
            s = want or "V"
            return f"({self.uf('field%d' % t[2], [bs], s)} {b})", s
        if k == "idx":
            b, bs = self.tr(t[1])
            return f"({self.uf('idx%d' % t[2], [bs], 'V')} {b})", "V"
        if k == "index":
            b, bs = self.tr(t[1])
            i, is_ = self.tr(t[2], "Int")
            s_ = want or "V"
            return f"({self.uf('index', [bs, is_], s_)} {b} {i})", s_
        if k == "discr":
            b, bs = self.tr(t[1], "Int")
            if bs == "Int":
                return b, "Int"
            return f"({self.uf('discr', [bs], 'Int')} {b})", "Int"
        if k == "some":
            b, bs = self.tr(t[1])
            return f"({self.uf('Some', [bs], 'V')} {b})", "V"
        if k == "un":
            a, sa = self.tr(t[2], want)
            if t[1] == "Neg":
                return (f"(fp.neg {a})", "F") if sa == "F" else (f"(- {a})", "Int")
            return f"(not {a})", "Bool"
        if k == "op":
            a, sa = self.tr(t[2])
            b, sb = self.tr(t[3], sa)
            if sa == "V" and sb != "V":
                a, sa = self.tr(t[2], sb)
            op = t[1]
            if sa == "F":
                m = {"Add": "fp.add RNE", "Sub": "fp.sub RNE", "Mul": "fp.mul RNE", "Lt": "fp.lt", "Le": "fp.leq", "Gt": "fp.gt", "Ge": "fp.geq", "Eq": "fp.eq"}[op]
                return f"({m} {a} {b})", ("F" if op in ("Add", "Sub", "Mul") else "Bool")
            m = {"Add": "+", "Sub": "-", "Mul": "*", "Lt": "<", "Le": "<=", "Gt": ">", "Ge": ">=", "Eq": "="}.get(op)
            if op == "Ne":
                return f"(not (= {a} {b}))", "Bool"
            return f"({m} {a} {b})", ("Int" if op in ("Add", "Sub", "Mul") else "Bool")
        if k in ("call", "mut"):
            fname = t[1] if k == "call" else "after:" + t[1]
            args = t[2] if k == "call" else t[3]
            ret = "V"
            if k == "call":
                ret = self.ret_sort(t[1]) if want is None else want
            parts = [self.tr(a) for a in args]
            if not parts:
                return self.sym("call_" + fname, ret), ret
            f = self.uf(short(fname), [s for _, s in parts], ret)
            return "(" + f + " " + " ".join(x for x, _ in parts) + ")", ret
        if k == "agg":
            parts = [(n,) + self.tr(v) for n, v in sorted(t[2].items())]
            f = self.uf("agg_" + t[1], [s for _, _, s in parts], "V")
            return "(" + f + " " + " ".join(x for _, x, _ in parts) + ")", "V"
        if k == "tuple":
            parts = [self.tr(v) for v in t[1]]
            f = self.uf("tuple%d" % len(parts), [s for _, s in parts], "V")
            return "(" + f + " " + " ".join(x for x, _ in parts) + ")", "V"
        if k == "closure":
            parts = [(n,) + self.tr(v) for n, v in sorted(t[2].items())]
            name = "closure_" + t[1]
            if not parts:
                return self.sym(name, "V"), "V"
            f = self.uf(name, [s for _, _, s in parts], "V")
            return "(" + f + " " + " ".join(x for _, x, _ in parts) + ")", "V"
        if k == "downcast":
            b, bs = self.tr(t[1])
            return f"({self.uf('as_' + t[2], [bs], 'V')} {b})", "V"
        if k == "mutref":
            return self.sym("ref_" + t[1], "V"), "V"
        if k == "upd":
            b, bs = self.tr(t[1])
            v, vs = self.tr(t[3])
            return f"({self.uf('upd%d' % t[2], [bs, vs], 'V')} {b} {v})", "V"
        raise ValueError("cannot translate " + repr(t)[:200])

    RET = {
        "StrategiesInfo::regret": "F", "StrategiesInfo::player_utility": "F", "StrategiesInfo::player_regret": "F",
        "eq": "Bool", "ends_with": "Bool", "sum::<f64>": "F", "f64>::max": "F", "is_finite": "Bool", "::len": "Int", "PartialOrd>::gt": "Bool", "PartialOrd>::ge": "Bool", "PartialOrd>::lt": "Bool", "PartialOrd>::le": "Bool",
    }

    def ret_sort(self, fname):
        s = short(fname)
        for k, v in self.RET.items():
            if s == k or s.endswith("::" + k) or s.endswith(k) or re.search(r"::" + re.escape(k) + r"(::<.*>)?$", s):
                return v
        return "V"

    def cond(self, scrut, dec):
        s, so = self.tr(scrut)
        if so == "Bool":
            if dec[0] == "eq":
                return f"(not {s})" if dec[1] == "0" else s
            return s if dec[1] == ["0"] else "true"
        if so != "Int":
            s, so = self.tr(("discr", scrut))
        if dec[0] == "eq":
            return f"(= {s} {dec[1]})"
        return "(and " + " ".join(f"(not (= {s} {k}))" for k in dec[1]) + " true)"


def short(fname):
    f = fname.replace("std::string::String", "String").replace("'_, ", "").replace("<'_>", "")
    return f


def solve(ctx, assertions, solver="z3", timeout=60, rewrite=None):
    text = "(set-logic ALL)\n(declare-sort V 0)\n" + "\n".join(ctx.decls.values()) + "\n" + "\n".join(f"(assert {a})" for a in assertions) + "\n(check-sat)\n(get-model)\n"
    if rewrite is not None:
        text = rewrite(text)
    cmd = {"z3": ["z3", "-in", f"-T:{timeout}"], "cvc5": ["cvc5", "--lang", "smt2", "--produce-models", f"--tlimit={timeout*1000}"]}[solver]
    t0 = time.time()
    p = subprocess.run(cmd, input=text, capture_output=True, text=True)
    out = p.stdout.strip()
    first = out.splitlines()[0] if out else "error"
    if "(error" in out.splitlines()[0:1] or first not in ("sat", "unsat", "unknown"):
        first = "error"
    return first, out, time.time() - t0, text


def solve_batch(queries, solver="z3", timeout=120):
    """queries: (key, desc, ctx, assertions). Queries sharing a ctx are sent to ONE solver process and
    separated by push/pop; returns verdicts in order: (sat|unsat|error, raw model/first lines, smt text)."""
    import itertools
    verdicts = [None] * len(queries)
    total = 0.0
    groups = {}
    for i, qd in enumerate(queries):
        groups.setdefault(id(qd[2]), []).append(i)
    for _, idxs in groups.items():
        ctx = queries[idxs[0]][2]
        # declarations may have grown while later queries of this ctx were built: use the final set
        head = "(set-logic ALL)\n(declare-sort V 0)\n" + "\n".join(ctx.decls.values()) + "\n"
        body = ""
        for i in idxs:
            body += "(push 1)\n" + "\n".join(f"(assert {a})" for a in queries[i][3]) + f"\n(check-sat)\n(echo \"--end {i}\")\n(pop 1)\n"
        text = head + body
        cmd = {"z3": ["z3", "-in", f"-T:{timeout}"], "cvc5": ["cvc5", "--lang", "smt2", "--incremental", f"--tlimit={timeout * 1000}"]}[solver]
        t0 = time.time()
        p = subprocess.run(cmd, input=text, capture_output=True, text=True)
        total += time.time() - t0
        chunks = re.split(r"\"?--end (\d+)\"?\n?", p.stdout)
        # chunks: [out0, idx0, out1, idx1, ...]
        for k in range(0, len(chunks) - 1, 2):
            out = chunks[k].strip()
            i = int(chunks[k + 1])
            first = out.splitlines()[0].strip() if out else "error"
            if "(error" in out or first not in ("sat", "unsat"):
                first = "error"
            verdicts[i] = (first, out, head + "(push 1)\n" + "\n".join(f"(assert {a})" for a in queries[i][3]) + "\n(check-sat)\n(get-model)\n")
        for i in idxs:
            if verdicts[i] is None:
                verdicts[i] = ("error", (p.stdout + p.stderr)[-300:], "")
    return {"verdicts": verdicts, "time": total}
