"""E2 for the solver drivers whose loops Kani could not carry: one loop iteration of
`solve_external_single` / the scope closure of `solve_external_multi`, and the (loop-free)
`single_player_iter`, executed symbolically from the library's MIR; call sequence, arguments and
the early-termination decision compared with the specification by z3."""
import os
import re
import shutil
import subprocess
import sys
import time

sys.path.insert(0, os.path.dirname(os.path.abspath(__file__)))
sys.path.insert(0, os.path.join(os.path.dirname(os.path.abspath(__file__)), "..", "driver"))
import mir  # noqa: E402
import smt  # noqa: E402
from common import REPO, WORK, Finding, env_offline  # noqa: E402

MIRDIR = os.path.join(WORK, "mir")


def dump_lib_mir():
    os.makedirs(MIRDIR, exist_ok=True)
    import fcntl
    lock = open(os.path.join(MIRDIR, "lib.lock"), "w")
    fcntl.flock(lock, fcntl.LOCK_EX)   # two properties may ask for the dump at the same time
    tgt = os.path.join(MIRDIR, "target-lib")
    fp = os.path.join(tgt, "debug", ".fingerprint")
    if os.path.isdir(fp):
        for d in os.listdir(fp):
            if d.startswith("cfr-"):
                shutil.rmtree(os.path.join(fp, d), ignore_errors=True)
    cmd = ["cargo", "+nightly", "rustc", "--offline", "--manifest-path", f"{REPO}/Cargo.toml", "--lib", "--no-default-features",
           "--target-dir", tgt, "--", "-Zunpretty=mir", "-C", "debug-assertions=off"]
    p = subprocess.run(cmd, cwd=REPO, env=env_offline(), capture_output=True, text=True)
    open(os.path.join(MIRDIR, "lib.mir"), "w").write(p.stdout)
    if "fn solve_external_single" not in p.stdout:
        return None, (p.stderr or "")[-1000:]
    return p.stdout, ""


def closure_fn(fns, span):
    for k, v in fns.items():
        if "{closure@" + span + "}" in v.split("\n", 1)[0]:
            return v
    return None


def closure_calls(fns, span):
    """names of all calls made in the body of the closure with this source span"""
    body = closure_fn(fns, span)
    if body is None:
        return []
    return re.findall(r"(?:= )?([^=;\n]*?)\((?:[^;\n]*)\) -> \[return", body)


def loop_iteration_paths(fn):
    H = [b for b, (_, t, _) in fn.blocks.items() if "RangeInclusive<u64> as Iterator>::next" in t]
    if len(H) != 1:
        return None, "expected exactly one iteration-counter loop"
    nxt = re.search(r"return: (bb\d+)", fn.blocks[H[0]][1]).group(1)
    m = re.search(r"\[0: (bb\d+), 1: (bb\d+)", fn.blocks[nxt][1])
    if not m:
        return None, "loop header shape not recognised"
    ex = mir.Executor(fn, stops={H[0]: "continue", m.group(1): "break"})
    paths = ex.run(entry=m.group(2))
    if ex.unknown:
        return None, "MIR constructs the encoder does not know: " + "; ".join(sorted(set(ex.unknown))[:4])
    return paths, ""


def generic_flag(fname):
    m = re.search(r"::<(true|false|FIRST)[,>]", fname)
    return m.group(1) if m else None


def run(prop, tier):
    t0 = time.time()
    res = {"findings": [], "infra": [], "evaluations": 0, "obligations": [], "solver_s": 0.0, "units": [], "coverage": {}}
    text, err = dump_lib_mir()
    if text is None:
        res["infra"].append("MIR dump of the library failed: " + err[-300:])
        return res
    fns = mir.split_functions(text)
    queries = []      # (key, desc, ctx, assertions)
    structural = []   # (key, desc, ok)

    def both(key, desc, ctx, a, b):
        queries.append((key, desc, ctx, [f"(not (= {a} {b}))"]))

    # ---------------------------------------------------------------- solve_external_single: one iteration
    name = "solve_external_single"
    if name not in fns:
        res["infra"].append(f"{name} not found in the MIR dump")
        return res
    fn = mir.Fn(name, fns[name])
    paths, why = loop_iteration_paths(fn)
    if paths is None:
        res["infra"].append(f"{name}: {why}")
        return res
    labels = sorted(p.label for p in paths)
    structural.append(("xs-iteration-shape", "one iteration of the external-sampling loop either continues or breaks after both passes", labels == ["break", "continue"]))
    ctx = smt.Ctx({}, {})
    ctx.sym_sorts.update({f"{name}:_5": "F", f"{name}:_4": "Int"})
    brk_conds, cont_conds = [], []
    for p in paths:
        calls = p.calls
        rr = [c for c in calls if c[0].startswith("recurse_regret::<")]
        sums = [c for c in calls if "as Iterator>::sum::<f64>" in c[0]]
        maps = [c for c in calls if "as Iterator>::map::<f64" in c[0]]
        chance_adv = [c for c in calls if "as Iterator>::for_each::<" in c[0]]
        ok_shape = len(rr) == 2 and len(sums) == 2 and len(maps) == 2 and len(chance_adv) == 2
        structural.append(("xs-call-counts", "per iteration: two traversals, two chance resets, two per-player update sums", ok_shape))
        if not ok_shape:
            continue
        order = [c[0][:14] for c in calls if c in rr or c in sums or c in chance_adv]
        structural.append(("xs-order", "order: traversal(one), chance reset, update(one), traversal(two), chance reset, update(two)",
                           [calls.index(rr[0]) < calls.index(chance_adv[0]) < calls.index(sums[0]) < calls.index(rr[1]) < calls.index(chance_adv[1]) < calls.index(sums[1])] == [True]))
        structural.append(("xs-pass-flags", "first traversal is the player-one pass, second the player-two pass", generic_flag(rr[0][0]) == "true" and generic_flag(rr[1][0]) == "false"))
        # which table each update iterates over: map(iter_mut(X), closure)
        def iter_target(mp):
            it = mp[1][0]
            return it[2][0] if it[0] == "call" and "iter_mut" in it[1] else it
        t1, t2 = iter_target(maps[0]), iter_target(maps[1])
        a1, e1 = rr[0][1][2], rr[0][1][3]
        a2, e2 = rr[1][1][2], rr[1][1][3]
        tr = lambda x: ctx.tr(x)[0]  # noqa: E731
        both("xs-pass-one-tables", "pass one updates the regrets of the table it traverses as active and that table is updated first", ctx, tr(a1), tr(t1))
        both("xs-pass-two-tables", "pass two: active table is the one updated second", ctx, tr(a2), tr(t2))
        both("xs-swap-1", "the active table of pass two is the opponent table of pass one", ctx, tr(a2), tr(e1))
        both("xs-swap-2", "the opponent table of pass two is the active table of pass one", ctx, tr(e2), tr(a1))
        structural.append(("xs-tables-distinct", "the two players' tables are different objects", a1 != e1))
        structural.append(("xs-player-one-first", "the table updated in the first pass is built from player one's infosets (index 0)", "('idx'" in repr(a1) and repr(a1).count("0)") >= 1 and "idx', ('call', 'std::array::<impl [&[impl PlayerInfoset]; 2]>::map" in repr(a1) and repr(a1).rstrip(")").endswith("0") or ", 0)" in repr(a1)[-40:]))
        both("xs-root-1", "both traversals start at the root", ctx, tr(rr[0][1][0]), tr(rr[1][1][0]))
        both("xs-chance-1", "both traversals use the same chance tables", ctx, tr(rr[0][1][1]), tr(rr[1][1][1]))
        # the closures: which update function and which iteration index
        for k, (mp, flag) in enumerate(((maps[0], "true"), (maps[1], "false"))):
            clo = mp[1][1]
            names = closure_calls(fns, clo[1]) if clo[0] == "closure" else []
            adv = [n for n in names if "advance::<" in n]
            structural.append((f"xs-advance-flag-{k + 1}", f"update of pass {k + 1} is advance::<{flag}> (iteration index t-1 only for the first player)",
                               len(adv) == 1 and generic_flag(adv[0]) == flag))
            itv = clo[2].get("it") if clo[0] == "closure" else None
            structural.append((f"xs-advance-it-{k + 1}", "the update receives the loop's iteration counter",
                               itv is not None and "RangeInclusive<u64> as Iterator>::next" in repr(itv) or (itv is not None and "_19" in repr(itv))))
        # early termination decision
        conds = [ctx.cond(s, d) for s, d in p.cond]
        (brk_conds if p.label == "break" else cont_conds).append("(and " + " ".join(conds) + " true)")
        if p.label == "break":
            r1, _ = ctx.tr(sums[0][2], "F")
            r2, _ = ctx.tr(sums[1][2], "F")
    # fp semantics of f64::max
    fmax = [k for k in ctx.decls if k.startswith("f_core__f64") and "max" in k]
    axioms = []
    for k in fmax:
        axioms.append(f"(forall ((a {smt.FP}) (b {smt.FP})) (= ({k} a b) (fp.max a b)))")
    if brk_conds and len(paths) == 2:
        thr, _ = ctx.tr(("sym", f"{name}:_5"), "F")
        spec = f"(fp.lt (fp.max {r1} {r2}) {thr})"
        queries.append(("xs-stop-decision", "the loop stops exactly when max(bound one, bound two) < threshold (all f64 incl. NaN, +-0, inf)", ctx,
                        axioms + [f"(not (= (or {' '.join(brk_conds)}) {spec}))"]))

    # ---------------------------------------------------------------- single_player_iter (loop free)
    spi = "single_player_iter"
    if spi in fns:
        f2 = mir.Fn(spi, fns[spi])
        ex = mir.Executor(f2)
        ps = ex.run()
        if ex.unknown or len(ps) != 1:
            res["infra"].append(f"{spi}: not a single straight path ({len(ps)} paths; {ex.unknown[:2]})")
        else:
            c = ps[0].calls
            idx = lambda pat: next((i for i, x in enumerate(c) if re.search(pat, x[0])), None)  # noqa: E731
            i_tt, i_drain, i_ext, i_rr, i_clear, i_sum = idx(r"thread_threshold::<FIRST>"), idx(r"par_drain"), idx(r"par_extend"), idx(r"^recurse_regret::<FIRST"), idx(r"HashMap::<.*>::clear"), idx(r"ParallelIterator>::sum")
            structural.append(("spi-order", "multi-thread pass: cut the tree, run the tasks into the cache, cached traversal from the root, clear the cache, update",
                               None not in (i_tt, i_drain, i_ext, i_rr, i_clear, i_sum) and i_tt < i_drain < i_ext < i_rr < i_clear < i_sum))
            if None not in (i_tt, i_rr, i_clear, i_ext):
                c2 = smt.Ctx({}, {})
                tr2 = lambda x: c2.tr(x)[0]  # noqa: E731
                structural.append(("spi-clear-target", "the cache that is cleared after every pass is the one the cached traversal read", c[i_clear][4][0] is not None and c[i_clear][4][0] == c[i_rr][4][4]))
                structural.append(("spi-extend-target", "the tasks' payoffs go into that same cache", c[i_ext][4][0] is not None and c[i_ext][4][0] == c[i_rr][4][4]))
                both("spi-threshold-opponent", "the tree is cut following the opponent table of this pass", c2, tr2(c[i_tt][1][2]), tr2(c[i_rr][1][3]))
                both("spi-root", "the cached traversal starts at the root the tree was cut from", c2, tr2(c[i_tt][1][0]), tr2(c[i_rr][1][0]))
                structural.append(("spi-drain-queue", "the tasks handed to the pool are the frontier computed by thread_threshold (its queue argument)", c[i_drain][4][0] is not None and c[i_drain][4][0] == c[i_tt][4][4]))
    else:
        res["infra"].append("single_player_iter not found in MIR")

    # ---------------------------------------------------------------- solve_generic_multi scope closure (one iteration)
    vm = "solve_generic_multi::{closure#0}"
    if vm in fns:
        f3 = mir.Fn(vm, fns[vm])
        H3 = [b for b, (_, t, _) in f3.blocks.items() if "RangeInclusive<u64> as Iterator>::next" in t]
        if len(H3) == 1:
            nxt = re.search(r"return: (bb\d+)", f3.blocks[H3[0]][1]).group(1)
            m3 = re.search(r"\[0: (bb\d+), 1: (bb\d+)", f3.blocks[nxt][1])
            ex3 = mir.Executor(f3, stops={H3[0]: "continue", m3.group(1): "break"}, max_visits=4)
            ps3 = ex3.run(entry=m3.group(2))
            if ex3.unknown or not ps3:
                res["infra"].append(f"{vm}: {sorted(set(ex3.unknown))[:3]} / {len(ps3)} paths")
            else:
                ok_order, ok_clear, ok_drain, ok_ext = True, True, True, True
                for p3 in ps3:
                    c = p3.calls
                    idx = lambda pat: next((i for i, x in enumerate(c) if re.search(pat, x[0])), None)  # noqa: E731
                    i_tt, i_dr, i_ex, i_rm, i_cl = idx(r"vanilla::thread_threshold"), idx(r"par_drain"), idx(r"par_extend"), idx(r"^recurse_multi::<"), idx(r"HashMap::<.*>::clear")
                    if None in (i_tt, i_dr, i_ex, i_rm, i_cl) or not (i_tt < i_dr < i_ex < i_rm < i_cl):
                        ok_order = False
                        continue
                    ok_clear &= c[i_cl][4][0] is not None and c[i_cl][4][0] == c[i_rm][4][5]
                    ok_ext &= c[i_ex][4][0] is not None and c[i_ex][4][0] == c[i_rm][4][5]
                    ok_drain &= c[i_dr][4][0] is not None and c[i_dr][4][0] == c[i_tt][4][4]
                ok_reset = True
                for p3 in ps3:
                    c = p3.calls
                    rs = [i for i, x in enumerate(c) if "as Iterator>::for_each::<" in x[0] and "ChanceRecurse>::advance" in x[0]]
                    i_rm = next((i for i, x in enumerate(c) if re.search(r"^recurse_multi::<", x[0])), None)
                    if not (len(rs) == 1 and i_rm is not None and rs[0] > i_rm and c[rs[0]][1][0][0] == "call" and "iter_mut" in c[rs[0]][1][0][1]):
                        ok_reset = False
                structural.append(("vm-chance-reset", "after the traversal of every iteration EVERY chance infoset is advanced (for_each over the whole table: drawn outcomes are forgotten before the next pass)", ok_reset))
                structural.append(("vm-order", "unsampled multi-thread iteration: cut the tree, run the tasks into the cache, cached traversal from the root, clear the cache (on every path, inner loop unrolled <= 3)", ok_order))
                structural.append(("vm-clear-target", "the cache cleared at the end of every iteration is the one the cached traversal read", ok_order and ok_clear))
                structural.append(("vm-extend-target", "the tasks' payoffs go into that same cache", ok_order and ok_ext))
                structural.append(("vm-drain-queue", "the tasks handed to the pool are the frontier computed by thread_threshold (its queue argument)", ok_order and ok_drain))
        else:
            res["infra"].append(f"{vm}: loop header not recognised")
    else:
        res["infra"].append(f"{vm} not found in MIR")

    # ---------------------------------------------------------------- solve_generic_single (one iteration): chance reset
    if "solve_generic_single" in fns:
        f5 = mir.Fn("solve_generic_single", fns["solve_generic_single"])
        H5 = [b for b, (_, t, _) in f5.blocks.items() if "RangeInclusive<u64> as Iterator>::next" in t]
        ps5, why5 = None, "loop header not recognised"
        if len(H5) == 1:
            nxt5 = re.search(r"return: (bb\d+)", f5.blocks[H5[0]][1]).group(1)
            m5 = re.search(r"\[0: (bb\d+), 1: (bb\d+)", f5.blocks[nxt5][1])
            if m5:
                ex5 = mir.Executor(f5, stops={H5[0]: "continue", m5.group(1): "break"}, max_visits=3)
                ps5 = ex5.run(entry=m5.group(2))
                if ex5.unknown:
                    ps5, why5 = None, "MIR constructs the encoder does not know: " + "; ".join(sorted(set(ex5.unknown))[:4])
        if ps5 is None:
            res["infra"].append("solve_generic_single: " + why5)
        else:
            ok_reset, ok_tables = bool(ps5), True
            for p5 in ps5:
                c = p5.calls
                i_rs = next((i for i, x in enumerate(c) if re.search(r"^recurse_single::<", x[0])), None)
                rs = [i for i, x in enumerate(c) if "as Iterator>::for_each::<" in x[0] and "ChanceRecurse>::advance" in x[0]]
                if not (i_rs is not None and len(rs) == 1 and rs[0] > i_rs and c[rs[0]][1][0][0] == "call" and "iter_mut" in c[rs[0]][1][0][1]):
                    ok_reset = False
                    continue
                # the table that is reset is the one the traversal read
                tbl = repr(c[i_rs][1][1])
                ok_tables &= ("solve_generic_single:_2" in tbl and "solve_generic_single:_2" in repr(c[rs[0]][1][0]))
            structural.append(("vs-chance-reset", "single-thread Full/Sampled driver: after the traversal of every iteration EVERY chance infoset is advanced (for_each over the whole table, the one the traversal read)", ok_reset and ok_tables))
    else:
        res["infra"].append("solve_generic_single not found in MIR")

    # ---------------------------------------------------------------- Game::solve dispatch (acyclic)
    gs = next((k for k in fns if re.fullmatch(r"<impl at src/lib\.rs:[0-9:]+ [0-9:]+>::solve", k)), None)
    if gs:
        f4 = mir.Fn("Game::solve", fns[gs])
        ex4 = mir.Executor(f4)
        ps4 = ex4.run()
        if ex4.unknown or len(ps4) < 4:
            res["infra"].append(f"Game::solve: {sorted(set(ex4.unknown))[:3]} / {len(ps4)} paths")
        else:
            enum_sm = ["Full", "Sampled", "External"]
            src = open(f"{REPO}/src/lib.rs").read()
            em = re.search(r"pub enum SolveMethod \{(.*?)\n\}", src, re.S)
            if em:
                enum_sm = re.findall(r"^\s*(\w+),?\s*$", re.sub(r"///.*", "", em.group(1)), re.M)
            want = {("Full", True): "solve_full_single", ("Sampled", True): "solve_sampled_single", ("External", True): "solve_external_single",
                    ("Full", False): "solve_full_multi", ("Sampled", False): "solve_sampled_multi", ("External", False): "solve_external_multi"}
            c4 = smt.Ctx({}, {})
            c4.sym_sorts.update({"Game::solve:_3": "Int", "Game::solve:_4": "F", "Game::solve:_5": "Int"})
            ok_one_thread_ok, ok_overflow = True, False
            for p4 in ps4:
                solver_calls = [c for c in p4.calls if re.match(r"solve_(full|sampled|external)_(single|multi)::<", c[0])]
                eqs = [c for c in p4.calls if c[0] == "<NonZero<usize> as PartialEq>::eq"]
                conds = [c4.cond(s, d_) for s, d_ in p4.cond]
                is_single = None
                for s_, d_ in p4.cond:
                    if s_[0] == "call" and s_[1] == "<NonZero<usize> as PartialEq>::eq":
                        is_single = not (d_[0] == "eq" and d_[1] == "0")
                errs = [c for c in p4.calls if "from_residual" in c[0]]
                if len(solver_calls) == 1:
                    sc = solver_calls[0]
                    called = sc[0].split("::<")[0]
                    codes = {v: i for i, v in enumerate(sorted(set(want.values())))}
                    m_t, _ = c4.tr(("discr", ("sym", "Game::solve:_2")))
                    spec = "(- 1)"
                    for i, v in reversed(list(enumerate(enum_sm))):
                        spec = f"(ite (= {m_t} {i}) {codes[want[(v, bool(is_single))]]} {spec})"
                    queries.append(("gs-dispatch", "Game::solve runs the solver named by the method, the single-thread variant exactly when one thread is requested (the unsampled method never reaches a sampling solver)", c4,
                                    conds + [f"(not (= {codes.get(called, -2)} {spec}))"]))
                    a = sc[1]
                    tr4 = lambda x: c4.tr(x)[0]  # noqa: E731
                    both("gs-budget", "the iteration budget is passed unchanged", c4, tr4(a[3]), tr4(("sym", "Game::solve:_3")))
                    both("gs-threshold", "the regret threshold is passed unchanged", c4, c4.tr(a[4], "F")[0], c4.tr(("sym", "Game::solve:_4"), "F")[0])
                    dflt = [c for c in p4.calls if "unwrap_or_default" in c[0]]
                    structural.append(("gs-default-params", "omitted parameters mean RegretParams::default(): the solver receives unwrap_or_default(params)",
                                       len(dflt) == 1 and a[-1] == dflt[0][2] and dflt[0][1][0] == ("sym", "Game::solve:_6")))
                    infos = a[2]
                    structural.append(("gs-player-order", "the solver receives [player one's infosets, player two's infosets] of this game, its root and its chance infosets",
                                       infos[0] == "tuple" and "0)" in repr(infos[1][0])[-12:] and "1)" in repr(infos[1][1])[-12:] and repr(infos[1][0]) != repr(infos[1][1])))
                    if is_single:
                        ok_one_thread_ok &= not errs and "checked_mul" not in " ".join(c[0] for c in p4.calls)
                elif not solver_calls:
                    # the only way out without solving: the task target 3 x threads overflowed
                    names = " ".join(c[0] for c in p4.calls)
                    ok_overflow |= ("checked_mul" in names and "ok_or" in names and bool(errs) and is_single is False and "ThreadOverflow" in repr(p4.calls))
                    if is_single:
                        ok_one_thread_ok = False
            structural.append(("gs-one-thread-never-errors", "with one thread no error path exists: no pool is built and the task target is not computed", ok_one_thread_ok))
            structural.append(("gs-thread-overflow", "3 x threads overflowing usize is reported as SolveError::ThreadOverflow before any solver runs", ok_overflow))
    else:
        res["infra"].append("Game::solve not found in MIR")

    # ---------------------------------------------------------------- discharge
    results = smt.solve_batch(queries, "z3") if queries else {"verdicts": [], "time": 0.0}
    res["solver_s"] = results["time"]
    fails = {}
    for (key, desc, ctx_, asserts), (r, out, txt) in zip(queries, results["verdicts"]):
        if r == "unsat":
            res["obligations"].append(("mirsmt-drivers", key, desc))
        elif r == "sat":
            fails.setdefault(key, (desc, out, txt))
        else:
            res["infra"].append(f"solver error on {key}: {out[:160]}")
    for key, desc, ok in structural:
        if ok:
            res["obligations"].append(("mirsmt-drivers", key, desc))
        else:
            fails.setdefault(key, (desc, "structural mismatch on a path of the MIR", ""))
    for key, (desc, out, txt) in fails.items():
        f = Finding(prop, f"mirsmt:{key}", f"{desc} -- {' '.join(str(out).split()[:40])}", harness=None, detail={"smt": txt[-2500:]})
        f.native_kind = "xdriver"
        res["findings"].append(f)
    res["evaluations"] = len(queries) + len(structural)
    res["units"].append({
        "harness": "mirsmt:external-drivers", "role": "one iteration of solve_external_single and the loop-free single_player_iter from the library's MIR: call sequence, which table/flag/index each call gets, stop decision",
        "functions": ["external::solve_external_single (loop body)", "external::single_player_iter"],
        "bounds": "one loop iteration from an arbitrary state (every callee uninterpreted; f64::max interpreted as fp.max); closures resolved by source span",
        "stubs": ["every callee is an uninterpreted function"], "assumes": [],
        "verdict": "counterexample" if fails else "holds", "cbmc_checks": len(queries) + len(structural), "obligations_proved": len(res["obligations"]),
        "covers_satisfied": [f"{len(paths)} paths through one iteration (continue, break)"], "verification_s": round(time.time() - t0, 2),
    })
    res["coverage"] = {"driver_queries": len(queries), "driver_structural_obligations": len(structural)}
    return res


if __name__ == "__main__":
    r = run(sys.argv[1] if len(sys.argv) > 1 else "C08", "quick")
    print("findings:", [(f.key, f.what[:200]) for f in r["findings"]])
    print("infra:", r["infra"][:5])
    print("obligations:", sorted(set(o[1] for o in r["obligations"])))
    print("evaluations", r["evaluations"], "solver_s", round(r["solver_s"], 2))
