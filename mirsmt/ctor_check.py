"""E2 for the constructor: ONE invocation of `Game::init_recurse` from the library's MIR (recursive
calls, iterators and containers uninterpreted; the three input loops unrolled <= 2 iterations).
Decides the per-node decision table of the documented contract: which weights are accepted (FP
theory), which error kind is returned in which situation, what is returned on success, and that a
revisited chance infoset is compared AFTER normalisation. Cross-node facts (perfect recall across
branches, one table per infoset label) are NOT decidable here and are not claimed."""
import os
import re
import sys
import time

sys.path.insert(0, os.path.dirname(os.path.abspath(__file__)))
sys.path.insert(0, os.path.join(os.path.dirname(os.path.abspath(__file__)), "..", "driver"))
import driver_check  # noqa: E402
import mir  # noqa: E402
import smt  # noqa: E402
from common import Finding  # noqa: E402


def classify(p):
    r = p.env.get("_0")
    if isinstance(r, tuple) and r[0] == "agg" and r[1] == "Err":
        v = r[2]["0"]
        return ("err", v[2] if v[0] == "variant" else "?")
    if isinstance(r, tuple) and r[0] == "agg" and r[1] == "Ok":
        n = r[2]["0"]
        if isinstance(n, tuple) and n[0] == "agg":
            return ("ok", n[1])
        return ("ok", "child")
    if isinstance(r, tuple) and r[0] == "call" and "from_residual" in r[1]:
        return ("propagate", "")
    if isinstance(r, tuple) and r[0] == "call" and "init_recurse" in r[1]:
        return ("ok", "tail")
    return ("?", repr(r)[:60])


def head(s):
    """name of the call whose result (or discriminant) is branched on"""
    t = s[1] if s[0] == "discr" else s
    while isinstance(t, tuple) and t[0] in ("downcast", "field", "discr"):
        t = t[1]
    return t[1] if isinstance(t, tuple) and t[0] == "call" else ""


def atoms(p):
    """ordered (name, value) facts read off the path's branch decisions"""
    out = []
    for s, d in p.cond:
        rs = repr(s)
        h = head(s)
        taken = None if d[0] != "eq" else d[1]
        if s[0] == "discr" and "Outcomes as IntoIterator>::IntoIter as Iterator>::next" in h and taken == "1":
            out.append(("outcome", True, ("field", ("field", ("downcast", s[1], "Some"), 0), 0)))
        elif s[0] == "discr" and "into_game_node" in h:
            out.append(("kind", {"0": "terminal", "1": "chance", "2": "player"}.get(taken, "?")))
        elif s[0] == "discr" and "Outcomes as IntoIterator>::IntoIter as Iterator>::next" in h:
            out.append(("outcome", taken == "1"))
        elif s[0] == "discr" and "Actions as IntoIterator>::IntoIter as Iterator>::next" in h:
            out.append(("action", taken == "1"))
        elif s[0] == "discr" and "IterMut<'_, f64> as Iterator>::next" in h:
            out.append(("norm_step", taken == "1"))
        elif s[0] == "op" and s[1] in ("Gt", "Ge", "Lt", "Le", "Eq", "Ne") and ("Outcomes as IntoIterator>::IntoIter as Iterator>::next" in repr(s[2])[:200] + repr(s[3])[:200]):
            out.append(("wtest", taken != "0"))
        elif s[0] == "call" and h.startswith("core::f64::<impl f64>::") and "Outcomes as IntoIterator>::IntoIter as Iterator>::next" in rs[:300]:
            out.append(("wtest", taken != "0"))
        elif (s[0] == "op" or (s[0] == "call" and h.startswith("core::f64::<impl f64>::"))) and "'Terminal'), 0)" in rs[:400]:
            out.append(("ptest", taken != "0"))
        elif s[0] == "call" and (h.startswith("Vec::<Node>::len") or h.startswith("Vec::<f64>::len")):     # kept weights and built children are pushed in pairs
            out.append(("n_outcomes", taken if taken in ("0", "1") else "many"))
        elif s[0] == "call" and h.startswith("Vec::<A>::len"):
            out.append(("n_actions", taken if taken in ("0", "1") else "many"))
        elif s[0] == "discr" and "OptBuilder" in h and "::entry" in h:
            out.append(("chance_entry", "vacant" if taken == "0" else "occupied"))
        elif s[0] == "discr" and "HashMap::<I, A>::entry" in h:
            out.append(("single_entry", "occupied" if taken == "0" else "vacant"))
        elif s[0] == "discr" and "compact::Builder" in h and "::entry" in h:
            out.append(("multi_entry", "vacant" if taken == "0" else "occupied"))
        elif s[0] == "call" and h.startswith("compact::Builder::<I, PlayerInfosetBuilder<A>>::contains"):
            out.append(("multi_has_label", taken != "0"))
        elif s[0] == "call" and h.startswith("HashMap::<I, A>::contains_key"):
            out.append(("single_has_label", taken != "0"))
        elif s[0] == "call" and "<[f64] as PartialEq>::ne" in h:
            out.append(("probs_differ", taken != "0"))
        elif s[0] == "call" and "<&A as PartialEq>::ne" in h:
            out.append(("single_action_differs", taken != "0"))
        elif s[0] == "call" and "<[A] as PartialEq>::ne" in h:
            out.append(("actions_differ", taken != "0"))
        elif s[0] == "call" and re.match(r"<&Option<.*> as PartialEq>::ne", h):
            out.append(("prev_differs", taken != "0"))
        elif s[0] == "op" and s[1] in ("Eq", "Ne", "Lt", "Le", "Gt", "Ge") and "HashSet" in rs[:400]:
            out.append(("uniq_test", taken != "0", s[2], s[3]))
        elif s[0] == "discr" and ("as Try>::branch" in h or "init_recurse" in h or "collect::<Result" in h):
            out.append(("child_ok", taken == "0"))
        else:
            out.append(("other", h[:60] + " | " + rs[:60], taken))
    return out


def expected(at, weights_bad, not_unique=None):
    """the documented contract as a decision table over the facts ONE invocation established about its
    node: the set of acceptable results (any violated rule may be the one named; a failing subtree's
    error may be passed on), and the facts an accepting result must have established"""
    d = {}
    child_failed = False
    for a in at:
        if a[0] == "child_ok" and a[1] is False:
            child_failed = True
        if a[0] not in ("wtest", "ptest", "uniq_test", "outcome", "action", "norm_step", "child_ok", "other"):
            d[a[0]] = a[1]
    k = d.get("kind")
    errs = set()
    if child_failed:
        errs.add(("propagate", ""))
    if k == "terminal":
        # accepted or rejected: which of the two is right is decided by the solver (payoff finiteness)
        return {("ok", "Terminal"), ("err", "NonFinitePayoff")}, []
    if k == "chance":
        if weights_bad:
            errs.add(("err", "NonPositiveChance"))
        n = d.get("n_outcomes")
        if n == "0":
            errs.add(("err", "EmptyChance"))
        if d.get("chance_entry") == "occupied" and d.get("probs_differ"):
            errs.add(("err", "ProbabilitiesNotEqual"))
        if errs:
            return errs, []
        if n == "1":
            return {("ok", "child")}, []
        need = [] if n == "many" else ["number of outcomes"]
        if d.get("chance_entry") is None:
            need.append("lookup of the chance infoset")
        if d.get("chance_entry") == "occupied" and d.get("probs_differ") is None:
            need.append("comparison with the stored probabilities")
        return {("ok", "Chance")}, need
    if k == "player":
        n = d.get("n_actions")
        if n == "0":
            errs.add(("err", "EmptyPlayer"))
        if d.get("single_entry") == "occupied" and d.get("single_action_differs"):
            errs.add(("err", "ActionsNotEqual"))
        if (n == "1" and d.get("multi_has_label")) or (n == "many" and d.get("single_has_label")):
            errs.add(("err", "ActionsNotEqual"))    # one label, one action here and several there
        if d.get("multi_entry") == "occupied" and d.get("actions_differ"):
            errs.add(("err", "ActionsNotEqual"))
        if d.get("multi_entry") == "occupied" and d.get("prev_differs"):
            errs.add(("err", "ImperfectRecall"))
        d["actions_unique"] = not_unique if not_unique is None else (not not_unique)
        if d.get("actions_unique") is False:
            errs.add(("err", "ActionsNotUnique"))
        if errs:
            return errs, []
        if n == "1":
            need = []
            if d.get("single_entry") is None:
                need.append("lookup of the single-action infoset")
            if d.get("single_entry") == "occupied" and d.get("single_action_differs") is None:
                need.append("comparison with the stored action")
            if d.get("multi_has_label") is None:
                need.append("ONE-TABLE: whether the label already names a multi-action infoset of this player")
            return {("ok", "tail")}, need
        need = [] if n == "many" else ["number of actions"]
        if d.get("multi_entry") is None:
            need.append("lookup of the player infoset")
        if d.get("multi_entry") == "occupied":
            if d.get("actions_differ") is None:
                need.append("comparison with the stored actions")
            if d.get("prev_differs") is None:
                need.append("comparison with the stored previous infoset")
        if d.get("multi_entry") == "vacant" and d.get("actions_unique") is None:
            need.append("distinctness of the actions")
        if d.get("single_has_label") is None:
            need.append("ONE-TABLE: whether the label already names a single-action infoset of this player")
        return {("ok", "Player")}, need
    return {("?", "")}, []



def helper_contracts(fns):
    """the small crate-local functions init_recurse relies on, each executed on its own: they must be the
    plain constructors / projections / table operations the per-node analysis takes them for"""
    out = []

    def find(suffix, sig):
        ks = [k for k, v in fns.items() if k.endswith(suffix) and re.search(sig, v.split("\n", 1)[0])]
        return ks[0] if len(ks) == 1 else None

    def paths(key, name):
        fn = mir.Fn(name, fns[key])
        ex = mir.Executor(fn, max_visits=2)
        ps = ex.run()
        return ps, ex.unknown

    def sym(name, i):
        return ("sym", f"{name}:_{i}")

    def check(tag, desc, suffix, sig, pred):
        key = find(suffix, sig)
        if key is None:
            out.append((tag, desc, False, "function not found (or not unique) in the MIR dump"))
            return
        ps, unk = paths(key, tag)
        try:
            ok, why = pred(ps, unk)
        except Exception as e:  # noqa: BLE001
            ok, why = False, f"unexpected shape: {e}"
        out.append((tag, desc, bool(ok), why))

    def into_of(t, arg):
        return isinstance(t, tuple) and t[0] == "call" and t[1].endswith("::into") and t[2] == [arg]

    def one(ps, unk, n_calls):
        return len(ps) == 1 and not unk and len(ps[0].calls) == n_calls and not ps[0].stores

    check("ctor-helper-chance-data", "ChanceInfosetData::new stores exactly the probabilities it is given", "::new", r"-> ChanceInfosetData",
          lambda ps, unk: (one(ps, unk, 1) and ps[0].env["_0"][0] == "agg" and into_of(ps[0].env["_0"][2]["probs"], sym("ctor-helper-chance-data", 1)), repr(ps[0].env.get("_0"))[:200] if ps else "no path"))
    check("ctor-helper-infoset-builder", "PlayerInfosetBuilder::new stores exactly the actions and the previous position it is given", "::new", r"-> PlayerInfosetBuilder<A>",
          lambda ps, unk: (one(ps, unk, 1) and into_of(ps[0].env["_0"][2]["actions"], sym("ctor-helper-infoset-builder", 1)) and ps[0].env["_0"][2]["prev_infoset"] == sym("ctor-helper-infoset-builder", 2),
                           repr(ps[0].env.get("_0"))[:200] if ps else "no path"))

    def pid(ps, unk):
        r = ps[0].env["_0"][2]
        b = sym("ctor-helper-infoset-data", 2)
        prev = r["prev_infoset"]
        prev_ok = prev == ("field", b, 1) or (prev[0] == "call" and prev[1].startswith("Option::<") and prev[2][0] == ("field", b, 1))
        return (len(ps) == 1 and not unk and not ps[0].stores and r["infoset"] == sym("ctor-helper-infoset-data", 1) and r["actions"] == ("field", b, 0) and prev_ok, repr(r)[:240])
    check("ctor-helper-infoset-data", "PlayerInfosetData::new keeps the label, the builder's actions and the builder's previous infoset", "::new", r"-> PlayerInfosetData<I, A>", pid)
    check("ctor-helper-chance-node", "Chance::new stores exactly the outcomes and the infoset index it is given", "::new", r"-> Chance\b",
          lambda ps, unk: (one(ps, unk, 1) and into_of(ps[0].env["_0"][2]["outcomes"], sym("ctor-helper-chance-node", 1)) and ps[0].env["_0"][2]["infoset"] == sym("ctor-helper-chance-node", 2),
                           repr(ps[0].env.get("_0"))[:200] if ps else "no path"))

    def ind(name):
        def pred(ps, unk):
            if len(ps) != 2 or unk:
                return False, f"{len(ps)} paths {unk[:2]}"
            got = {}
            for p in ps:
                (sc, d), = p.cond
                if sc != ("discr", ("field", ("tuple", [sym(name, 1), sym(name, 2)]), 0)) or d[0] != "eq":
                    return False, repr(sc)[:160]
                r = p.env["_0"]
                k = r[2] if r[0] == "idx" else (0 if "[0 of 2]" in r[1] else 1 if "[1 of 2]" in r[1] else None)
                got[d[1]] = k
            return got == {"0": 0, "1": 1}, f"player discriminant -> slot: {got}"
        return pred
    check("ctor-helper-ind", "PlayerNum::ind selects slot 0 for player one and slot 1 for player two", "::ind", r"PlayerNum", ind("ctor-helper-ind"))
    check("ctor-helper-ind-mut", "PlayerNum::ind_mut selects slot 0 for player one and slot 1 for player two", "::ind_mut", r"PlayerNum", ind("ctor-helper-ind-mut"))

    def entry(name, map_field, opt):
        def pred(ps, unk):
            if len(ps) != 2 or unk:
                return False, f"{len(ps)} paths {unk[:2]}"
            m = ("field", sym(name, 1), map_field)
            for p in ps:
                names = [c[0] for c in p.calls]
                i_len = next((i for i, n in enumerate(names) if n.startswith("IndexMap::<") and n.endswith("::len")), None)
                i_ent = next((i for i, n in enumerate(names) if n.startswith("IndexMap::<") and n.endswith("::entry")), None)
                if i_len is None or i_ent is None or not i_len < i_ent or p.calls[i_len][1] != [m]:
                    return False, "the index is not the table's length read before the lookup"
                key = p.calls[i_ent][1][1]
                if p.calls[i_ent][1][0] != m:
                    return False, "lookup in another table"
                if not opt and key != sym(name, 2):
                    return False, "lookup with another key"
                if opt and not (key[0] == "call" and key[1].startswith("Option::<K>::ok_or_else") and key[2][0] == sym(name, 2) and "(*_1).0" in repr(key[2][1])):
                    return False, "the key is not `label, or else a fresh number from the counter`"
                r = p.env["_0"]
                e = r[2]["0"][2]
                src = ("field", ("downcast", p.calls[i_ent][2], r[1]), 0)
                if r[1] == "Vacant" and not (e.get("ind") == p.calls[i_len][2] and e.get("ent") == src):
                    return False, "vacant entry does not carry (length before lookup, the map's vacant entry)"
                if r[1] == "Occupied" and e.get("ent") != src:
                    return False, "occupied entry does not carry the map's occupied entry"
            return {p.env["_0"][1] for p in ps} == {"Vacant", "Occupied"}, "vacant and occupied arms"
        return pred
    check("ctor-helper-table-entry", "Builder::entry: a new key is offered the table's current length as its index", "::entry", r"_1: &mut compact::Builder", entry("ctor-helper-table-entry", 0, False))
    check("ctor-helper-opt-table-entry", "OptBuilder::entry: a label is looked up as itself, no label as a fresh number; a new entry is offered the table's current length", "::entry", r"_1: &mut OptBuilder",
          entry("ctor-helper-opt-table-entry", 1, True))

    def counter(ps, unk):
        p = ps[0]
        c = ("field", sym("ctor-helper-opt-counter", 1), 0)
        return (len(ps) == 1 and not unk and p.env["_0"] == c and len(p.stores) == 1 and p.stores[0][1] == ("op", "Add", c, ("const", "1_usize")), repr(p.stores)[:200])
    check("ctor-helper-opt-counter", "anonymous chance nodes are numbered 0, 1, 2, ... (returns the counter, then increments it)", "::entry::{closure#0}", r"compact", counter)

    def insert(ps, unk):
        p = ps[0]
        me = sym("ctor-helper-insert", 1)
        c = p.calls[0]
        return (len(ps) == 1 and not unk and len(p.calls) == 1 and c[0].endswith("::insert") and c[1] == [("field", me, 1), ("tuple", [("field", me, 0), sym("ctor-helper-insert", 2)])]
                and p.env["_0"] == ("field", me, 0), repr(c[1])[:200])
    check("ctor-helper-insert", "VacantEntry::insert stores (offered index, value) and returns that index", "::insert", r"compact::VacantEntry", insert)

    def get(ps, unk):
        p = ps[0]
        r = p.env["_0"]
        return (len(ps) == 1 and not unk and len(p.calls) == 1 and p.calls[0][0].endswith("::into_mut") and r[0] == "tuple" and ".0: usize" in repr(r[1][0]) and ".1: V" in repr(r[1][1]), repr(r)[:200])
    check("ctor-helper-get", "OccupiedEntry::get returns the stored (index, value)", "::get", r"compact::OccupiedEntry", get)
    check("ctor-helper-contains", "Builder::contains asks the table itself for the key", "::contains", r"compact::Builder",
          lambda ps, unk: (len(ps) == 1 and not unk and ps[0].env["_0"][0] == "call" and ps[0].env["_0"][1].startswith("IndexMap::<") and "contains_key" in ps[0].env["_0"][1]
                           and ps[0].env["_0"][2] == [("field", sym("ctor-helper-contains", 1), 0), sym("ctor-helper-contains", 2)], repr(ps[0].env.get("_0"))[:200]))
    # iteration over the tables and the conversion closures of from_root
    def closure_rets(prefix):
        out = {}
        for k_, v in fns.items():
            if k_.startswith(prefix) and "{closure#" in k_[len(prefix):]:
                ex_ = mir.Executor(mir.Fn("c", v), max_visits=2)
                ps_ = ex_.run()
                out[k_] = (ps_[0].env.get("_0") if len(ps_) == 1 and not ex_.unknown else None)
        return out
    A2 = ("sym", "c:_2")
    it_b = [k_ for k_ in fns if k_.startswith("compact::") and k_.endswith("::next::{closure#0}")]
    rets = {k_: closure_rets(k_.rsplit("::{closure#0}", 1)[0]).get(k_) for k_ in it_b}
    plain = [r for r in rets.values() if r == ("tuple", [("field", A2, 0), ("field", ("field", A2, 1), 1)])]
    opt = [r for r in rets.values() if isinstance(r, tuple) and r[0] == "tuple" and len(r[1]) == 2 and r[1][1] == ("field", ("field", A2, 1), 1)
           and r[1][0][0] == "call" and r[1][0][1].endswith("::ok") and r[1][0][2] == [("field", A2, 0)]]
    nx_ok = 0
    for k_ in [k2 for k2 in fns if k2.startswith("compact::") and k2.endswith("::next")]:
        ex_ = mir.Executor(mir.Fn("n", fns[k_]), max_visits=2)
        ps_ = ex_.run()
        r_ = ps_[0].env.get("_0") if len(ps_) == 1 and not ex_.unknown else None
        if (isinstance(r_, tuple) and r_[0] == "call" and r_[1].startswith("Option::<") and "::map::<" in r_[1] and r_[2][0][0] == "call" and r_[2][0][1].startswith("<indexmap::map::IntoIter<")
                and r_[2][0][1].endswith("as Iterator>::next") and r_[2][0][2] == [("field", ("sym", "n:_1"), 0)] and r_[2][1][0] == "closure"):
            nx_ok += 1
    plain = plain if nx_ok == 2 else []
    out.append(("ctor-helper-table-iter", "iterating a table yields (key, value) - for the chance table (label or None, value) - in the map's (insertion = index) order, dropping only the stored index",
                len(it_b) == 2 and len(plain) == 1 and len(opt) == 1, repr(list(rets.values()))[:240]))
    fr = next((k_ for k_ in fns if k_.endswith("::from_root")), None)
    cr = closure_rets(fr) if fr else {}
    vals = list(cr.values())

    def shape(r):
        if r == ("field", A2, 1):
            return "value-of-pair"
        if isinstance(r, tuple) and r[0] == "call" and r[1].startswith("PlayerInfosetData::<I, A>::new") and r[2] == [("field", A2, 0), ("field", A2, 1)]:
            return "data(label, builder)"
        if isinstance(r, tuple) and r[0] == "call" and "collect::<" in r[1]:
            inner = r[2][0]
            if inner[0] == "call" and "as Iterator>::map::<PlayerInfosetData" in inner[1] and inner[2][0][0] == "call" and inner[2][0][1].endswith("as IntoIterator>::into_iter") and inner[2][0][2] == [A2]:
                return "collect(map(table))"
            if inner[0] == "call" and inner[1].endswith("as IntoIterator>::into_iter") and inner[2] == [A2]:
                return "collect(table)"
        return "?" + repr(r)[:80]
    shapes = sorted(shape(r) for r in vals)
    out.append(("ctor-helper-from-root-tables", "from_root converts each builder table element-wise and in order: chance values, (label, builder) -> PlayerInfosetData::new(label, builder), single-action pairs",
                shapes == sorted(["value-of-pair", "data(label, builder)", "collect(map(table))", "collect(table)"]), str(shapes)))

    # Game::from_root: the set-up around the recursion
    def from_root(ps, unk):
        if unk:
            return False, str(unk[:3])
        oks = [p for p in ps if isinstance(p.env.get("_0"), tuple) and p.env["_0"][0] == "agg" and p.env["_0"][1] == "Ok"]
        errs = [p for p in ps if p not in oks]
        if len(oks) != 1 or len(errs) != 1:
            return False, f"{len(oks)} accepting and {len(errs)} rejecting paths"
        why = []
        for p in ps:
            rc = [c for c in p.calls if "init_recurse" in c[0]]
            if len(rc) != 1:
                return False, f"{len(rc)} calls of init_recurse"
            a = rc[0][1]
            if not (a[0][0] == "call" and "OptBuilder" in a[0][1] and a[0][1].endswith("::new")):
                why.append("the chance table is not a fresh OptBuilder")
            for k_, what in ((1, "player"), (2, "single-action")):
                t = a[k_]
                if not (t[0] == "tuple" and len(t[1]) == 2 and "[0 of 2]" in repr(t[1][0]) and "[1 of 2]" in repr(t[1][1])
                        and repr(t[1][0]).replace("[0 of 2]", "") == repr(t[1][1]).replace("[1 of 2]", "")):
                    why.append(f"the {what} tables are not passed as [slot 0, slot 1] of one pair")
            if a[3] != sym("ctor-helper-from-root", 1):
                why.append("the tree passed down is not the root")
            none = ("agg", "None", {})
            if a[4] != ("tuple", [none, none]):
                why.append(f"the initial history is not [None, None]: {repr(a[4])[:80]}")
        g = oks[0].env["_0"][2]["0"]
        if not (g[0] == "agg" and g[1] == "Game" and g[2].get("root") == ("field", ("downcast", ("call", "<Result<Node, GameError> as Try>::branch", [oks[0].calls[[i for i, c in enumerate(oks[0].calls) if "init_recurse" in c[0]][0]][2]]), "Continue"), 0)):
            why.append("the game's root is not the node returned by the recursion")
        r = errs[0].env["_0"]
        if not (r[0] == "call" and "from_residual" in r[1]):
            why.append("an error of the recursion is not passed on")
        return not why, "; ".join(why)
    check("ctor-helper-from-root", "Game::from_root starts the recursion at the root with fresh tables, slot 0 = player one, an empty history for both players; returns its node or passes its error on",
          "::from_root", r"-> Result<Game<I, A>, GameError>", from_root)
    return out


def run(prop, tier, mir_text=None):
    t0 = time.time()
    res = {"findings": [], "infra": [], "evaluations": 0, "obligations": [], "solver_s": 0.0, "units": [], "coverage": {}}
    text, err = (mir_text, "") if mir_text is not None else driver_check.dump_lib_mir()
    if text is None:
        res["infra"].append("MIR dump of the library failed: " + err[-300:])
        return res
    fns = mir.split_functions(text)
    key = next((k for k in fns if k.endswith("::init_recurse")), None)
    if key is None:
        res["infra"].append("init_recurse not found in the MIR dump")
        return res
    fn = mir.Fn("init_recurse", fns[key])
    UNROLL = 5 if tier == "thorough" else 3     # loop heads visited at most UNROLL times: <= UNROLL-1 iterations per input loop
    ex = mir.Executor(fn, max_visits=UNROLL, max_paths=200000)
    paths = ex.run()
    if ex.unknown or len(paths) < 20:
        res["infra"].append(f"init_recurse: {sorted(set(ex.unknown))[:4]} / {len(paths)} paths")
        return res
    clo_cache = {}

    def closure_paths(span):
        """the closure with this source span, executed on its own"""
        if span not in clo_cache:
            body = next((v for k_, v in fns.items() if "init_recurse::{closure#" in k_ and "{closure@" + span + "}" in v.split("\n", 1)[0]), None)
            if body is None:
                clo_cache[span] = None
            else:
                cex = mir.Executor(mir.Fn("clo", body), max_visits=3)
                cps = cex.run()
                if cex.unknown:
                    res["infra"].append(f"init_recurse closure: {sorted(set(cex.unknown))[:3]}")
                clo_cache[span] = cps
        return clo_cache[span]

    def is_ind(t):
        return isinstance(t, tuple) and t[0] == "call" and t[1].startswith("PlayerNum::ind::<")
    fails = {}
    structural = []
    queries = []
    kinds_seen = set()
    n_table = 0
    for p in paths:
        got = classify(p)
        at = atoms(p)
        unknown_atoms = [a for a in at if a[0] == "other"]
        # a branch condition the analysis does not recognise establishes no fact: if the path then lacks a
        # required fact it is reported as a candidate (the native tree family decides between violation and
        # inconclusive); if it lacks nothing the path is inconclusive (the unknown test may hide something)
        pushed = [c[1][1] for c in p.calls if c[0].startswith("Vec::<f64>::push")]
        examined = [a[2] for a in at if a[0] == "outcome" and a[1]]
        # distinctness test (decided by the solver below): here only whether the path treated the list as distinct
        ut = [a for a in at if a[0] == "uniq_test"]
        inserted = any(c[0].startswith("PlayerInfosetBuilder::<A>::new") for c in p.calls)
        not_unique = None if not ut else (not inserted)
        want, missing = expected(at, any(w not in pushed for w in examined), not_unique)
        n_table += 1
        kinds_seen.add(got)
        g = ("ok", "child") if got == ("ok", "tail") and ("ok", "child") in want else got
        one_table = [m for m in missing if m.startswith("ONE-TABLE")]
        missing = [m for m in missing if not m.startswith("ONE-TABLE")]
        if g in want and g[0] == "ok" and g[1] in ("tail", "Player") and not missing:
            structural.append(("ctor-one-table", "a label is accepted as a single-action infoset only after checking it does not name a multi-action infoset of the same player, and vice versa",
                               not one_table, f"path facts {[(a[0], a[1]) for a in at][:14]} -> returned {got}; not established: {one_table}"))
        ok = g in want and not missing
        if ok and unknown_atoms:
            res["infra"].append("init_recurse: branch condition not recognised: " + str(unknown_atoms[0])[:160])
        w1 = sorted(want)[0]
        name = "ctor-table-" + (got[1] or got[0]) if ok else "ctor-table-" + (w1[1] or w1[0])
        desc = {"err": f"returns {got[1]} only in the documented situation", "ok": f"accepts (returns {got[1]}) only after every rule of this node was checked and none is violated",
                "propagate": "a failing subtree's error is passed on unchanged"}.get(got[0] if ok else w1[0], "decision table")
        structural.append((name, desc, ok, f"path facts {[(a[0], a[1]) for a in at][:14]} -> returned {got}, contract allows {sorted(want)}" + (f", not established: {missing}" if missing else "")))
        # weight rule in the FP theory: pushed weights are exactly the positive finite ones
        ctx = smt.Ctx({}, {})
        conds = []
        wnames = {}
        for w in examined:
            wnames.setdefault(repr(w), ("sym", "w%d" % len(wnames)))
        PAY = ("field", ("downcast", ("call", "<T as IntoGameNode>::into_game_node", [("sym", "init_recurse:_4")]), "Terminal"), 0)
        wnames[repr(PAY)] = ("sym", "payoff")
        for v in wnames.values():
            ctx.sym_sorts[v[1]] = "F"

        def sub(t):
            if isinstance(t, tuple):
                r = wnames.get(repr(t))
                return r if r is not None else tuple(sub(x) for x in t)
            if isinstance(t, list):
                return [sub(x) for x in t]
            if isinstance(t, dict):
                return {k: sub(v) for k, v in t.items()}
            return t
        for s_, d_ in p.cond:
            try:
                conds.append(ctx.cond(sub(s_), d_))
            except Exception as e:  # noqa: BLE001
                res["infra"].append(f"init_recurse: cannot translate a branch condition: {e}")
        AX = {"is_finite": "(not (or (fp.isInfinite x) (fp.isNaN x)))", "is_nan": "(fp.isNaN x)", "is_infinite": "(fp.isInfinite x)",
              "is_sign_positive": "(fp.isPositive x)", "is_sign_negative": "(fp.isNegative x)", "is_normal": "(fp.isNormal x)", "is_subnormal": "(fp.isSubnormal x)"}
        axioms = []
        for k in list(ctx.decls):
            for nm, body in AX.items():
                if k.startswith("f_") and ("__" + nm + "_F_B") in k:
                    axioms.append(f"(forall ((x {smt.FP})) (= ({k} x) {body}))")
        for a in ut[:1]:
            x, y = (a[2], a[3]) if "HashSet" in repr(a[2])[:60] else (a[3], a[2])
            hs, _ = ctx.tr(x, "Int")
            vl, _ = ctx.tr(y, "Int")
            dom = [f"(<= 0 {hs})", f"(<= {hs} {vl})"]     # a set built from a list has at most as many elements
            if inserted:
                queries.append(("ctor-distinct-accepted", "a new infoset is recorded only if its actions are pairwise distinct (set size = list length)", ctx, dom + conds + [f"(not (= {hs} {vl}))"]))
            elif got == ("err", "ActionsNotUnique"):
                queries.append(("ctor-distinct-rejected", "ActionsNotUnique is returned only if two actions coincide (set size < list length)", ctx, dom + conds + [f"(= {hs} {vl})"]))
        if any(a == ("kind", "terminal") for a in at):
            pt, _ = ctx.tr(("sym", "payoff"), "F")
            fin = f"(not (or (fp.isInfinite {pt}) (fp.isNaN {pt})))"
            if got == ("ok", "Terminal"):
                queries.append(("ctor-payoff-finite", "a terminal node is accepted only with a finite payoff (every f64)", ctx, axioms + conds + [f"(not {fin})"]))
            else:
                queries.append(("ctor-payoff-rejected", "a terminal node is rejected only for a non-finite payoff (every f64)", ctx, axioms + conds + [fin]))
        for w in examined:
            wt, so = ctx.tr(sub(w), "F")
            good = f"(and (fp.gt {wt} ((_ to_fp 11 53) RNE 0.0)) (not (fp.isInfinite {wt})) (not (fp.isNaN {wt})))"
            if w in pushed:
                queries.append(("ctor-weight-accepted", "a chance weight that is kept is positive and finite (every f64)", ctx, axioms + conds + [f"(not {good})"]))
            elif got == ("err", "NonPositiveChance") and w == examined[-1]:
                queries.append(("ctor-weight-rejected", "a chance weight is rejected only if it is not positive or not finite (every f64)", ctx, axioms + conds + [good]))
            else:
                structural.append(("ctor-weight-dropped", "an outcome is never silently dropped", False, f"weight {repr(w)[:120]} neither kept nor rejected; returned {got}"))
        # a revisited chance infoset is compared after normalisation
        if any(a == ("chance_entry", "occupied") for a in at):
            names = [c[0] for c in p.calls]
            i_ne = next((i for i, n in enumerate(names) if "<[f64] as PartialEq>::ne" in n), None)
            i_sum = next((i for i, n in enumerate(names) if "as Iterator>::sum::<f64>" in n), None)
            i_steps = [i for i, n in enumerate(names) if "IterMut<'_, f64> as Iterator>::next" in n]
            div_blocks = {b for b, (st, _, _) in fn.blocks.items() if any("Div(" in x for x in st)}
            n_div = sum(1 for b in p.trace if b in div_blocks)
            steps = [a[1] for a in at if a[0] == "norm_step"]
            ok = (i_ne is not None and i_sum is not None and i_steps and i_sum < i_steps[0] and i_steps[-1] < i_ne
                  and steps and steps[-1] is False and n_div == sum(1 for x in steps if x))
            structural.append(("ctor-compare-normalised", "weights of a revisited chance infoset are summed, each divided by the sum (loop run to exhaustion), and only then compared with the stored ones",
                               bool(ok), f"calls sum@{i_sum} steps@{i_steps} ne@{i_ne}, divisions {n_div}, loop decisions {steps}"))
        # ---- what is passed down / stored (structure of the terms on the path)
        NODE = ("call", "<T as IntoGameNode>::into_game_node", [("sym", "init_recurse:_4")])
        CTX = [("sym", "init_recurse:_1"), ("sym", "init_recurse:_2"), ("sym", "init_recurse:_3")]
        PREV = ("sym", "init_recurse:_5")
        rec = [c for c in p.calls if "init_recurse" in c[0]]
        kind = next((a[1] for a in at if a[0] == "kind"), None)
        if kind == "chance":
            pushed = [c[1][1] for c in p.calls if c[0].startswith("Vec::<f64>::push")]
            okc = True
            for i, c in enumerate(rec):
                a = c[1]
                child = a[3]
                # child = (elem).1 and the weight pushed for it = (elem).0 of the SAME outcome
                same = (child[0] == "field" and child[2] == 1 and i < len(pushed) and pushed[i] == ("field", child[1], 0))
                okc = okc and a[:3] == CTX and a[4] == PREV and same
            structural.append(("ctor-chance-recursion", "every outcome is built from its own subtree with the unchanged context, and the weight kept for it is that outcome's weight",
                               okc and len(pushed) >= len(rec), f"{len(rec)} recursive calls, {len(pushed)} weights pushed"))
            for ref, val, _, _ in p.stores:
                good = (val[0] == "op" and val[1] == "Div" and val[2] == ref and val[3][0] == "call" and "sum::<f64>" in val[3][1]
                        and "IterMut" in repr(ref)[:80])
                structural.append(("ctor-normalise-by-sum", "each kept weight is replaced by itself divided by the sum of the kept weights", good, repr(val)[:200]))
        if kind == "player":
            num = ("field", ("downcast", NODE, "Player"), 0)
            n_act = next((a[1] for a in at if a[0] == "n_actions"), None)
            if n_act == "1":
                okp = all(c[1][:3] == CTX and c[1][4] == PREV for c in rec)
                structural.append(("ctor-single-recursion", "a one-action node continues into its only child with the unchanged context (no infoset of its own)", okp and len(rec) <= 1, f"{len(rec)} recursive calls"))
            if n_act == "many":
                cmp_prev = [c for c in p.calls if re.match(r"<&Option<.*> as PartialEq>::ne", c[0])]
                for c in cmp_prev:
                    okr = is_ind(c[1][1]) and c[1][1][2] == [num, PREV] and "OccupiedEntry" in repr(c[1][0])[:120] and c[1][0][0] == "field"
                    structural.append(("ctor-recall-compare", "the recorded previous infoset is compared with THIS player's previous infoset on the way to the node", okr, repr(c[1])[-200:]))
                newb = [c for c in p.calls if c[0].startswith("PlayerInfosetBuilder::<A>::new")]
                for c in newb:
                    okn = is_ind(c[1][1]) and c[1][1][2] == [num, PREV]
                    structural.append(("ctor-recall-record", "a new infoset records THIS player's previous infoset on the way to the node", okn, repr(c[1][1])[:200]))
                maps = [c for c in p.calls if "as Iterator>::map::<" in c[0]]
                for c in maps:
                    clo = c[1][1]
                    i_map = p.calls.index(c)
                    r = p.env.get("_0")
                    info_ind = r[2]["0"][2]["0"][2]["infoset"] if got == ("ok", "Player") else None
                    why = []
                    clo_paths = closure_paths(clo[1]) if clo[0] == "closure" else None
                    if clo_paths is None:
                        structural.append(("ctor-player-recursion", "children are built by the constructor's own closure", False, repr(clo)[:200]))
                        continue
                    # the closure body, executed on its own, with its captures replaced by what the outer path captured
                    caps = {}
                    # by POSITION: the names rustc prints in the closure aggregate are not in field order
                    for k_, v_ in enumerate(clo[2].values()):
                        caps[repr(("field", ("sym", "clo:_1"), k_))] = v_

                    def csub(t):
                        if isinstance(t, tuple):
                            r_ = caps.get(repr(t))
                            return r_ if r_ is not None else tuple(csub(x) for x in t)
                        if isinstance(t, list):
                            return [csub(x) for x in t]
                        if isinstance(t, dict):
                            return {k_: csub(v) for k_, v in t.items()}
                        return t
                    if len(clo_paths) != 1:
                        why.append(f"closure body has {len(clo_paths)} paths")
                    cp = clo_paths[0]
                    rc = [x for x in cp.calls if "init_recurse" in x[0]]
                    if len(rc) != 1:
                        why.append(f"{len(rc)} recursive calls in the closure body")
                    else:
                        a = csub(rc[0][1])
                        if a[:3] != CTX:
                            why.append("context tables are not passed on unchanged")
                        item = a[3]
                        if not (item == ("sym", "clo:_2") or (item[0] == "field" and item[1] == ("sym", "clo:_2"))):
                            why.append("the subtree built is not the closure's own item")
                        hist = a[4]
                        if "init_recurse:_5" not in repr(hist):
                            why.append("the history passed down is not derived from the history received")
                    outer = [x for x in p.stores if isinstance(x[0], tuple) and x[0][0] == "call" and x[0][1].startswith("PlayerNum::ind_mut::<Option<") and x[2] <= i_map]
                    inner = [(csub(x[0]), csub(x[1])) for x in cp.stores if isinstance(x[0], tuple) and x[0][0] == "call" and x[0][1].startswith("PlayerNum::ind_mut::<Option<")]
                    sts = [(x[0], x[1]) for x in outer] + inner
                    if len(sts) != 1:
                        why.append(f"{len(sts)} updates of the previous-infoset entry (expected exactly one)")
                    else:
                        ref, val = sts[0]
                        tgt = ref[2]
                        if not (tgt[0] == num and "init_recurse:_5" in repr(tgt[1])):
                            why.append("the entry updated is not THIS player's entry of the history")
                        if val[0] not in ("some", "agg") or (val[0] == "agg" and val[1] != "Some"):
                            why.append("the entry is not set to Some(..)")
                        if info_ind is not None and repr(info_ind) not in repr(val):
                            why.append("the entry does not carry this node's infoset index")
                        depends = "('sym', 'clo:_2')" in repr(val)
                        structural.append(("ctor-recall-action", "the history handed to a child identifies the ACTION leading to it (children under different actions of one infoset get different histories)",
                                           depends, f"value recorded for every child: {repr(val)[:160]}"))
                    structural.append(("ctor-player-recursion", "the children of a node are built with the unchanged context and THIS player's previous infoset set to the node's infoset (the other player's unchanged)",
                                       not why, "; ".join(why)))
                if got == ("ok", "Player"):
                    pl = p.env["_0"][2]["0"][2]["0"][2]
                    structural.append(("ctor-player-node", "the node built carries the node's player and the infoset index found or inserted for its label", pl["num"] == num and ("entry" in repr(pl["infoset"])), repr(pl["num"])[:100]))
    structural += helper_contracts(fns)
    need = {("err", k) for k in ("EmptyChance", "NonPositiveChance", "ProbabilitiesNotEqual", "EmptyPlayer", "ActionsNotEqual", "ActionsNotUnique", "ImperfectRecall")}
    structural.append(("ctor-all-rules-reachable", "every documented error kind is returned on some path", need <= kinds_seen, f"seen {sorted(k[1] for k in kinds_seen if k[0] == 'err')}"))
    results = smt.solve_batch(queries, "z3") if queries else {"verdicts": [], "time": 0.0}
    res["solver_s"] = results["time"]
    for (key_, desc, _, _), (r, out, txt) in zip(queries, results["verdicts"]):
        if r == "unsat":
            res["obligations"].append(("mirsmt-ctor", key_, desc))
        elif r == "sat":
            fails.setdefault(key_, (desc, out, txt))
        else:
            res["infra"].append(f"solver error on {key_}: {out[:160]}")
    for name, desc, ok, why in structural:
        if ok:
            res["obligations"].append(("mirsmt-ctor", name, desc))
        else:
            fails.setdefault(name, (desc, why, ""))
    for k_, (desc, out, txt) in fails.items():
        f = Finding(prop, f"mirsmt:{k_}", f"{desc} -- {' '.join(str(out).split()[:50])}", harness=None, detail={"smt": txt[-2000:]})
        f.native_kind = "ctor"
        res["findings"].append(f)
    res["evaluations"] = len(queries) + len(structural)
    res["units"].append({
        "harness": "mirsmt:init_recurse", "role": "one invocation of Game::init_recurse from the library's MIR: per-node decision table of the documented contract",
        "functions": ["Game::init_recurse (one invocation)"],
        "bounds": f"{len(paths)} complete paths; the three input loops unrolled <= {UNROLL - 1} iterations; recursive calls, iterators, Vec and map operations uninterpreted; weights in the FP theory",
        "stubs": ["recursive calls and every container / iterator operation are uninterpreted"], "assumes": [],
        "verdict": "counterexample" if fails else "holds", "cbmc_checks": len(queries) + len(structural), "obligations_proved": len(res["obligations"]),
        "covers_satisfied": [f"{len(paths)} paths, {n_table} decision-table rows", f"result classes seen: {sorted(set(k[0] + ':' + k[1] for k in kinds_seen))}"],
        "verification_s": round(time.time() - t0, 2),
    })
    res["coverage"] = {"ctor_paths": len(paths), "ctor_queries": len(queries), "ctor_structural": len(structural)}
    return res


if __name__ == "__main__":
    r = run("C11", "quick", open(sys.argv[1]).read() if len(sys.argv) > 1 else None)
    print("findings:", [(f.key, f.what[:300]) for f in r["findings"]])
    print("infra:", r["infra"][:4])
    print("obligations:", sorted(set(o[1] for o in r["obligations"])))
    print("evaluations", r["evaluations"], "solver_s", round(r["solver_s"], 2))
