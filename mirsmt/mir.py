"""Minimal MIR (rustc -Zunpretty=mir) reader + path-wise symbolic executor for ACYCLIC functions.

Values are terms:  ('const', text) | ('sym', name) | ('field', term, idx) | ('call', fname, [args])
                   | ('op', Add|Sub|Lt|Eq, a, b) | ('variant', enum_type, name) | ('agg', name, {field: term})
                   | ('some', term) | ('mut', fname, old, [other args])   (state of an object after a &mut call)
                   | ('idx', term, i) | ('discr', term) | ('ref', term)
Library calls are uninterpreted. References are transparent (a reference to a place evaluates to the
place's current value) except that a call receiving `&mut place` updates that place.
"""
import re


class Fn:
    def __init__(self, name, text):
        self.name = name
        self.locals = {}   # _N -> type string
        self.blocks = {}   # bbN -> (stmts, terminator, cleanup?)
        self.parse(text)

    def parse(self, text):
        for m in re.finditer(r"^\s*let (?:mut )?(_\d+): (.*);$", text, re.M):
            self.locals[m.group(1)] = m.group(2).strip()
        hdr = re.match(r"fn (.*?)\((.*)\) -> (.*?) \{", text)
        if hdr:
            for a in re.finditer(r"(_\d+): ([^,]+(?:<[^>]*>)?[^,]*)", hdr.group(2)):
                self.locals[a.group(1)] = a.group(2).strip()
            self.locals["_0"] = hdr.group(3).strip()
        for m in re.finditer(r"^    (bb\d+)( \(cleanup\))?: \{\n(.*?)^    \}", text, re.M | re.S):
            lines = [l.strip() for l in m.group(3).splitlines() if l.strip()]
            lines = [l for l in lines if not l.startswith(("StorageLive", "StorageDead", "nop", "FakeRead", "PlaceMention", "Retag", "AscribeUserType"))]
            self.blocks[m.group(1)] = (lines[:-1], lines[-1], bool(m.group(2)))


PROMOTED = {}   # "<fn path>::promoted[N]" -> literal it refers to (only promoted references to a literal)


def split_functions(mir_text):
    fns = {}
    for m in re.finditer(r"^fn (.*?)\((.*?)\) -> .*? \{\n.*?^\}", mir_text, re.M | re.S):
        fns[m.group(1).strip()] = m.group(0)
    PROMOTED.clear()
    for m in re.finditer(r"^const (\S[^\n]*?::promoted\[\d+\]): [^\n]*= \{\n(.*?)^\}", mir_text, re.M | re.S):
        vals = {}
        for a in re.finditer(r"^\s+(_\d+) = (.*);$", m.group(2), re.M):
            rhs = a.group(2).strip()
            mm = re.fullmatch(r"&\(?\*?(_\d+)\)?", rhs) or re.fullmatch(r"(?:copy|move) (_\d+)", rhs)
            if mm:
                vals[a.group(1)] = vals.get(mm.group(1))
            elif rhs.startswith("const ") and not re.search(r"promoted\[", rhs):
                vals[a.group(1)] = rhs[6:].strip()
            else:
                vals[a.group(1)] = None
        if vals.get("_0") is not None:
            PROMOTED[m.group(1)] = vals["_0"]
    return fns


def promoted_literal(const_text):
    """`path::<generics>::promoted[N]` at a use site -> the literal, if the promoted body is a reference to one"""
    if "::promoted[" not in const_text:
        return None
    flat = re.sub(r"::<[^<>]*(?:<[^<>]*(?:<[^<>]*>[^<>]*)*>[^<>]*)*>", "", const_text)
    hits = [v for k, v in PROMOTED.items() if flat == k or flat.endswith("::" + k)]
    return hits[0] if len(hits) == 1 else None


def norm_place(txt, alias):
    """`((*_5).2: T)` -> `(*_5).2`, following references held in locals: `(*_26)` -> what _26 points to"""
    t = txt.strip()
    t = re.sub(r": [^()]*(?:\([^()]*\)[^()]*)*\)", ")", t)
    t = re.sub(r"^\((.*)\)$", r"\1", t)
    m = re.fullmatch(r"\(\*(_\d+)\)|\*(_\d+)", t)
    if m:
        loc = m.group(1) or m.group(2)
        return alias.get(loc, t)
    return t


def split_args(s):
    out, depth, cur = [], 0, ""
    for ch in s:
        if ch in "([{<":
            depth += 1
        elif ch in ")]}>":
            depth -= 1
        if ch == "," and depth == 0:
            out.append(cur.strip())
            cur = ""
        else:
            cur += ch
    if cur.strip():
        out.append(cur.strip())
    return out


class Path:
    def __init__(self):
        self.env = {}          # local -> term
        self.cond = []         # list of (term, expected value) branch decisions
        self.calls = []        # (fname, [arg terms], result term, cond snapshot)
        self.trace = []
        self.label = "return"
        self.alias = {}        # local holding a reference -> normalised place text it points to
        self.stores = []       # (reference term, stored value, number of calls made before) for `(*_x) = v`


class Executor:
    def __init__(self, fn, inputs=None, max_paths=4000, stops=None, max_visits=None):
        self.stops = stops or {}
        self.max_visits = max_visits
        self.fn = fn
        self.inputs = inputs or {}
        self.paths = []
        self.diverged = []
        self.max_paths = max_paths
        self.unknown = []

    # ---------------------------------------------------------------- places / operands
    def place(self, p, txt):
        txt = txt.strip()
        if txt.startswith("(") and txt.endswith(")") and ": " in txt:
            # (BASE.N: TYPE) with arbitrary nesting: split at the last ".N: " at depth 1
            depth = 0
            cut = None
            for i, ch in enumerate(txt):
                if ch in "([<{":
                    depth += 1
                elif ch in ")]>}":
                    depth -= 1
                elif ch == "." and depth == 1:
                    mm = re.match(r"\.(\d+): ", txt[i:])
                    if mm:
                        cut = (i, int(mm.group(1)))
            if cut:
                base = self.place(p, txt[1:cut[0]])
                if isinstance(base, tuple) and base[0] == "downcast" and isinstance(base[1], tuple) and base[1][0] == "agg" and base[1][1] == base[2] and str(cut[1]) in base[1][2]:
                    return base[1][2][str(cut[1])]
                return ("field", base, cut[1])
        m = re.fullmatch(r"\((.+) as (\w+)\)", txt)
        if m:
            return ("downcast", self.place(p, m.group(1)), m.group(2))
        m = re.fullmatch(r"(.+)\[(\d+) of \d+\]", txt)
        if m:
            return ("idx", self.place(p, m.group(1)), int(m.group(2)))
        m = re.fullmatch(r"(.+)\[(_\d+)\]", txt)
        if m:
            base = self.place(p, m.group(1))
            ix = self.place(p, m.group(2))
            mm = re.fullmatch(r"(\d+)_usize", ix[1]) if isinstance(ix, tuple) and ix[0] == "const" else None
            if mm:
                k = int(mm.group(1))
                if isinstance(base, tuple) and base[0] == "tuple" and k < len(base[1]):
                    return base[1][k]
                return ("idx", base, k)
            return ("index", base, ix)
        m = re.fullmatch(r"\(\*(.+)\)", txt)
        if m:
            return self.place(p, m.group(1))
        m = re.fullmatch(r"_\d+", txt)
        if m:
            if txt in p.env:
                return p.env[txt]
            return ("sym", f"{self.fn.name}:{txt}")
        if not txt.startswith(("_", "(", "*")):
            return ("const", txt)  # function items and other named constants used as operands
        self.unknown.append("place: " + txt)
        return ("sym", "?" + txt)

    def operand(self, p, txt):
        txt = txt.strip()
        if txt.startswith("no_retag "):
            txt = txt[len("no_retag "):]
        if txt.startswith("const ZeroSized: {closure@"):
            return ("closure", re.match(r"const ZeroSized: \{closure@([^}]*)\}", txt).group(1), {})
        if txt.startswith(("copy ", "move ")):
            return self.place(p, txt[5:])
        if txt.startswith("const "):
            lit = promoted_literal(txt[6:].strip())
            # only numeric literals are substituted (cli_check resolves promoted strings itself)
            numeric = lit is not None and re.fullmatch(r"-?[\d.]+(e-?\d+)?f64|-?\d+_[ui]\w+", lit)
            return ("const", lit if numeric else txt[6:].strip())
        return self.place(p, txt)

    def root_local(self, txt):
        m = re.search(r"_\d+", txt)
        return m.group(0) if m else None

    # ---------------------------------------------------------------- statements
    def assign(self, p, lhs, rhs):
        lhs = lhs.strip()
        rhs = rhs.strip()
        val = None
        m = re.fullmatch(r"(Add|Sub|Mul|Div|Rem|Lt|Le|Gt|Ge|Eq|Ne|BitAnd|BitOr|AddWithOverflow|SubWithOverflow|MulWithOverflow)\((.+)\)", rhs)
        if m:
            a, b = split_args(m.group(2))
            val = ("op", m.group(1), self.operand(p, a), self.operand(p, b))
        elif re.fullmatch(r"(Neg|Not)\((.+)\)", rhs):
            mm = re.fullmatch(r"(Neg|Not)\((.+)\)", rhs)
            val = ("un", mm.group(1), self.operand(p, mm.group(2)))
        elif rhs.startswith("discriminant("):
            inner = self.place(p, rhs[len("discriminant("):-1])
            known = {"Ok": 0, "Err": 1, "Continue": 0, "Break": 1, "None": 0, "Some": 1}
            if isinstance(inner, tuple) and inner[0] == "agg" and inner[1] in known:
                val = ("const", f"{known[inner[1]]}_isize")
            elif isinstance(inner, tuple) and inner[0] == "some":
                val = ("const", "1_isize")
            else:
                val = ("discr", inner)
        elif rhs.startswith("&mut ") or rhs.startswith("&raw "):
            val = ("mutref", rhs.split(" ", 1)[1].replace("mut ", "").strip())
            p.alias[lhs] = norm_place(val[1], p.alias)
        elif rhs.startswith("&"):
            val = self.place(p, rhs[1:].strip())
            p.alias[lhs] = norm_place(rhs[1:].strip(), p.alias)
        elif re.fullmatch(r"(.+?) as (.+) \((\w+)(\(.*\))?\)", rhs):
            # cast: `OPERAND as TYPE (Kind)`; transparent
            val = self.operand(p, re.fullmatch(r"(.+?) as (.+) \((\w+)(\(.*\))?\)", rhs).group(1))
        elif rhs.startswith(("copy ", "move ", "const ", "no_retag ")):
            val = self.operand(p, rhs)
        elif rhs.startswith("{closure@") or rhs.startswith("const ZeroSized: {closure@"):
            mm = re.match(r"(?:const ZeroSized: )?\{closure@([^}]*)\}(?: \{(.*)\})?$", rhs)
            fields = {}
            if mm and mm.group(2):
                for f in split_args(mm.group(2)):
                    k, v = f.split(":", 1)
                    fields[k.strip()] = self.operand(p, v)
            val = ("closure", mm.group(1) if mm else rhs, fields)
        elif re.fullmatch(r"(?:[a-z_]\w*::)*[A-Z][\w]*(::<.*>)?::[A-Z]\w*\((.+)\)", rhs):
            mm = re.fullmatch(r"(?:[a-z_]\w*::)*([A-Z][\w]*)(?:::<.*>)?::([A-Z]\w*)\((.+)\)", rhs)
            val = ("agg", mm.group(2), {str(i): self.operand(p, a) for i, a in enumerate(split_args(mm.group(3)))})
            if mm.group(2) == "Some" and len(val[2]) == 1:
                val = ("some", val[2]["0"])     # one representation of Some(x) everywhere
        elif re.fullmatch(r"[^=]*::(Ok|Err|Continue|Break)\((.+)\)", rhs) and not rhs.startswith(("copy ", "move ")):
            mm = re.fullmatch(r"[^=]*::(Ok|Err|Continue|Break)\((.+)\)", rhs)
            val = ("agg", mm.group(1), {"0": self.operand(p, mm.group(2))})
        elif re.fullmatch(r"[\w:]+(::)?<.*> \{.*\}", rhs):
            mm = re.fullmatch(r"([\w:]+)(?:::)?<.*?> \{(.*)\}", rhs)
            fields = {}
            for f in split_args(mm.group(2)):
                k, v = f.split(":", 1)
                fields[k.strip()] = self.operand(p, v)
            val = ("agg", mm.group(1).rstrip(":"), fields)
        elif re.fullmatch(r"[\w:<>', ]+::Some\((.+)\)", rhs):
            val = ("some", self.operand(p, re.fullmatch(r"[\w:<>', ]+::Some\((.+)\)", rhs).group(1)))
        elif re.fullmatch(r"[\w:]+ \{.*\}", rhs):
            mm = re.fullmatch(r"([\w:]+) \{(.*)\}", rhs)
            fields = {}
            for f in split_args(mm.group(2)):
                k, v = f.split(":", 1)
                fields[k.strip()] = self.operand(p, v)
            val = ("agg", mm.group(1), fields)
        elif re.fullmatch(r"[A-Za-z_][\w:]*", rhs):
            ty = self.fn.locals.get(lhs, "?")
            val = ("variant", ty.split("::")[-1], rhs.split("::")[-1])
        elif re.fullmatch(r"[A-Z][\w]*::<.*>::[A-Z]\w*", rhs):
            val = ("agg", rhs.rsplit("::", 1)[1], {})
        elif re.fullmatch(r"(PtrMetadata|Len|UnaryOp)\((.+)\)", rhs):
            mm = re.fullmatch(r"(\w+)\((.+)\)", rhs)
            val = ("call", mm.group(1), [self.operand(p, mm.group(2))])
        elif re.fullmatch(r"\[(.+); (\d+)\]", rhs) and int(re.fullmatch(r"\[(.+); (\d+)\]", rhs).group(2)) <= 4:
            mm = re.fullmatch(r"\[(.+); (\d+)\]", rhs)
            val = ("tuple", [self.operand(p, mm.group(1))] * int(mm.group(2)))
        elif re.fullmatch(r"\[.*\]", rhs) or re.fullmatch(r"\(.*\)", rhs):
            inner = rhs[1:-1]
            val = ("tuple", [self.operand(p, x) for x in split_args(inner)])
        else:
            self.unknown.append("rvalue: " + rhs)
            val = ("sym", "?" + rhs)
        self.store(p, lhs, val)

    def store(self, p, lhs, val):
        if re.fullmatch(r"_\d+", lhs):
            p.env[lhs] = val
        else:
            m = re.fullmatch(r"\((_\d+)\.(\d+): .*\)", lhs)
            if m:
                base = p.env.get(m.group(1), ("sym", f"{self.fn.name}:{m.group(1)}"))
                p.env[m.group(1)] = ("upd", base, int(m.group(2)), val)
            elif re.match(r"\(\(\*(_\d+)\)\.(\d+): ", lhs):
                # store into a field behind a reference: recorded, not read back
                m = re.match(r"\(\(\*(_\d+)\)\.(\d+): ", lhs)
                p.stores.append((("field", p.env.get(m.group(1), ("sym", f"{self.fn.name}:{m.group(1)}")), int(m.group(2))), val, len(p.calls), lhs))
            elif re.match(r"\(\(\*_\d+\)\[", lhs):
                # store into a field of an indexed element behind a reference: recorded, not read back
                m = re.match(r"\(\(\*(_\d+)\)\[(_\d+)\]\.(\d+): ", lhs)
                if m:
                    p.stores.append((("index", p.env.get(m.group(1), ("sym", f"{self.fn.name}:{m.group(1)}")), p.env.get(m.group(2), ("sym", f"{self.fn.name}:{m.group(2)}"))), val, len(p.calls), lhs))
                else:
                    self.unknown.append("store: " + lhs)
            elif lhs.startswith("(*"):
                # store through a reference: not read back by later loads, but recorded for the analyses
                m = re.match(r"\(\*(_\d+)\)", lhs)
                if m:
                    p.stores.append((p.env.get(m.group(1)), val, len(p.calls), lhs))
            else:
                self.unknown.append("store: " + lhs)

    # ---------------------------------------------------------------- execution
    def run(self, entry="bb0"):
        p = Path()
        for k, v in self.inputs.items():
            p.env[k] = v
        self._go(p, entry, 0)
        return self.paths

    def clone(self, p):
        q = Path()
        q.env = dict(p.env)
        q.cond = list(p.cond)
        q.calls = list(p.calls)
        q.stores = list(p.stores)
        q.trace = list(p.trace)
        q.label = p.label
        q.alias = dict(p.alias)
        return q

    def _go(self, p, bb, depth):
        if len(self.paths) > self.max_paths or depth > 400:
            self.unknown.append("path limit")
            return
        if bb in self.stops and p.trace:
            p.label = self.stops[bb]
            self.paths.append(p)
            return
        if self.max_visits is not None and p.trace.count(bb) >= self.max_visits:
            return  # bounded unrolling of inner loops: deeper paths are outside the bound
        stmts, term, cleanup = self.fn.blocks[bb]
        p.trace.append(bb)
        for s in stmts:
            m = re.match(r"(.+?) = (.+);$", s)
            if m:
                self.assign(p, m.group(1), m.group(2))
            elif s.startswith(("discriminant(", "Deinit", "Coverage", "ConstEvalCounter", "debug")):
                continue
            else:
                self.unknown.append("stmt: " + s)
        t = term
        if t.startswith("return"):
            self.paths.append(p)
            return
        if t.startswith(("unreachable", "resume", "abort")):
            return
        m = re.match(r"goto -> (bb\d+);", t)
        if m:
            return self._go(p, m.group(1), depth + 1)
        m = re.match(r"drop\((.*)\) -> \[return: (bb\d+)", t)
        if m:
            return self._go(p, m.group(2), depth + 1)
        m = re.match(r"assert\((.*)\) -> \[success: (bb\d+)", t)
        if m:
            return self._go(p, m.group(2), depth + 1)
        m = re.match(r"switchInt\((.+?)\) -> \[(.*)\];", t)
        if m:
            scrut = self.operand(p, m.group(1))
            arms = split_args(m.group(2))
            taken = []
            if isinstance(scrut, tuple) and scrut[0] == "const" and re.fullmatch(r"true|false|-?\d+(_(u|i)\w+)?", scrut[1]):
                # drop flags and other constants: follow the matching arm only
                cv = {"true": "1", "false": "0"}.get(scrut[1], re.sub(r"_(u|i)\w+$", "", scrut[1]))
                target = None
                for a in arms:
                    k, tgt = [x.strip() for x in a.split(":")]
                    if k == cv or (k == "otherwise" and target is None):
                        target = tgt
                        if k == cv:
                            break
                return self._go(p, target, depth + 1)
            for a in arms:
                k, tgt = [x.strip() for x in a.split(":")]
                if k == "otherwise":
                    q = self.clone(p)
                    q.cond.append((scrut, ("not", taken[:])))
                    self._go(q, tgt, depth + 1)
                else:
                    q = self.clone(p)
                    q.cond.append((scrut, ("eq", k)))
                    taken.append(k)
                    self._go(q, tgt, depth + 1)
            return
        m = re.match(r"(.*\)) -> \[return: (bb\d+)(?:, unwind[^\]]*)?\];", t)
        if m:
            expr, tgt = m.group(1), m.group(2)
            dest = None
            dm = re.match(r"(_\d+|\(_\d+\.\d+: [^=]*?\)) = (.*)$", expr)
            if dm:
                dest, expr = dm.group(1), dm.group(2)
            # argument list = last balanced parenthesis group
            depth, i = 0, len(expr) - 1
            while i >= 0:
                if expr[i] == ")":
                    depth += 1
                elif expr[i] == "(":
                    depth -= 1
                    if depth == 0:
                        break
                i -= 1
            fname, args = expr[:i].strip(), expr[i + 1:-1]
            argterms = []
            mutated = []
            places = []
            for a in split_args(args):
                v = self.operand(p, a)
                loc0 = self.root_local(a)
                places.append(p.alias.get(loc0) if re.fullmatch(r"(copy|move) _\d+", a.strip()) else None)
                if isinstance(v, tuple) and v[0] == "mutref":
                    loc = self.root_local(v[1])
                    mutated.append(loc)
                    v = self.place(p, v[1])
                argterms.append(v)
            res = ("call", fname, argterms)
            if fname.endswith("as Try>::branch") and argterms and isinstance(argterms[0], tuple) and argterms[0][0] == "agg":
                a0 = argterms[0]
                if a0[1] == "Ok":
                    res = ("agg", "Continue", {"0": a0[2]["0"]})
                elif a0[1] == "Err":
                    res = ("agg", "Break", {"0": a0})
            if "from_residual" in fname and argterms and isinstance(argterms[0], tuple) and argterms[0][0] == "agg" and argterms[0][1] == "Err":
                res = argterms[0]
            p.calls.append((fname, argterms, res, list(p.cond), places))
            for loc in mutated:
                p.env[loc] = ("mut", fname, p.env.get(loc, ("sym", f"{self.fn.name}:{loc}")), [a for a in argterms])
            if dest:
                self.store(p, dest.strip(), res)
            return self._go(p, tgt, depth + 1)
        m = re.match(r"(?:(.+?) = )?(.+?)\((.*)\) -> (?:unwind|\[unwind|bb\d+;)", t)
        if m:  # diverging call (panic): the path never returns; kept separately for the analyses that ask for it
            p.label = "diverge"
            try:
                p.calls.append((m.group(2).strip(), [self.operand(p, a) for a in split_args(m.group(3))], None, list(p.cond), []))
            except Exception:  # noqa: BLE001
                p.calls.append((m.group(2).strip(), [], None, list(p.cond), []))
            self.diverged.append(p)
            return
        self.unknown.append("terminator: " + t)
