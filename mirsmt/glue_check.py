"""E2 for the CLI's read-or-die glue (C17, partial): json::from_reader / from_state / json::from_str,
gambit::from_reader / from_str, auto::from_reader and the call order in `main`, from the binary's MIR.
Decides, per function and for every path, that a reader returns a game ONLY through the successful arm
of the parser AND of Game::from_root (and, for Gambit, the two-player test), that every other arm
diverges through expect/panic with the documented diagnostic (or, in from_str, passes the parser's error
on to the caller that diverges), and that `main` writes its result only after reader and solver returned.
What the parsers (serde_json, gambit-parser) and get_global_info accept is NOT covered."""
import os
import re
import sys
import time

sys.path.insert(0, os.path.dirname(os.path.abspath(__file__)))
sys.path.insert(0, os.path.join(os.path.dirname(os.path.abspath(__file__)), "..", "driver"))
import cli_check  # noqa: E402
import mir  # noqa: E402
from common import Finding  # noqa: E402


def is_call(t, prefix):
    return isinstance(t, tuple) and t[0] == "call" and t[1].startswith(prefix)


def expect_of(t, inner_prefix, anchor):
    """t == expect(<call inner_prefix ...>, "...anchor...") -> the inner call, else None"""
    if isinstance(t, tuple) and t[0] == "call" and "::expect" in t[1] and len(t[2]) == 2 and is_call(t[2][0], inner_prefix) and t[2][1][0] == "const" and anchor in t[2][1][1]:
        return t[2][0]
    return None


def run(prop, tier, mir_text=None):
    t0 = time.time()
    res = {"findings": [], "infra": [], "evaluations": 0, "obligations": [], "solver_s": 0.0, "units": [], "coverage": {}}
    if mir_text is None:
        text, err = cli_check.dump_mir()
        if text is None:
            res["infra"].append("MIR dump of the binary failed: " + str(err)[-300:])
            return res
    else:
        text = mir_text
    fns = mir.split_functions(text)
    need = ["json::from_reader", "from_state", "json::from_str", "auto::from_reader", "gambit::from_reader", "gambit::from_str", "main"]
    missing = [k for k in need if k not in fns]
    if missing:
        res["infra"].append(f"functions not found in the binary's MIR: {missing}")
        return res
    structural = []
    n_paths = 0

    def execd(key, name):
        ex = mir.Executor(mir.Fn(name, fns[key]), max_visits=2, max_paths=20000)
        ps = ex.run()
        if ex.unknown:
            res["infra"].append(f"{key}: {sorted(set(ex.unknown))[:3]}")
        return ps, ex.diverged

    def sym(name, i):
        return ("sym", f"{name}:_{i}")

    # json::from_reader
    ps, dv = execd("json::from_reader", "jr")
    n_paths += len(ps) + len(dv)
    ok = len(ps) == 1 and not dv and is_call(ps[0].env["_0"], "from_state") and expect_of(ps[0].env["_0"][2][0], "serde_json::from_reader", "#json-error") is not None \
        and expect_of(ps[0].env["_0"][2][0], "serde_json::from_reader", "#json-error")[2] == [sym("jr", 1)]
    structural.append(("glue-json-reader", "json::from_reader returns only from_state(parsed input); a parse error leaves through expect with the #json-error diagnostic", ok, repr(ps[0].env.get("_0"))[:200] if ps else "no path"))
    # from_state
    ps, dv = execd("from_state", "fs")
    n_paths += len(ps) + len(dv)
    r = ps[0].env["_0"] if ps else None
    ok = len(ps) == 1 and not dv and r[0] == "tuple" and len(r[1]) == 2 and r[1][1] == ("const", "0f64") and expect_of(r[1][0], "Game::<std::string::String, std::string::String>::from_root", "#game-error") is not None \
        and expect_of(r[1][0], "Game::<", "#game-error")[2] == [sym("fs", 1)]
    structural.append(("glue-json-game", "a parsed JSON definition becomes a game only through Game::from_root's Ok arm; a contract violation leaves through expect with the #game-error diagnostic; constant-sum offset 0", ok, repr(r)[:200]))
    # json::from_str
    ps, dv = execd("json::from_str", "js")
    n_paths += len(ps) + len(dv)
    why = []
    if len(ps) != 2 or dv:
        why.append(f"{len(ps)} returning / {len(dv)} diverging paths")
    for p in ps:
        (sc, d), = p.cond[:1]
        parsed_ok = d == ("eq", "0")
        r = p.env["_0"]
        if not (sc[0] == "discr" and is_call(sc[1], "<Result<State, serde_json::Error> as Try>::branch") and is_call(sc[1][2][0], "serde_json::from_str") and sc[1][2][0][2] == [sym("js", 1)]):
            why.append("the branch is not on the parser's result for the given text")
        if parsed_ok and not (r[0] == "agg" and r[1] == "Ok" and is_call(r[2]["0"], "from_state")):
            why.append("the success arm does not return Ok(from_state(parsed))")
        if not parsed_ok and not (is_call(r, "<Result<") and "from_residual" in r[1]):
            why.append("the parser's error is not passed on")
    structural.append(("glue-json-str", "json::from_str returns Ok only for from_state(parsed text) and passes the parser's error on otherwise", not why, "; ".join(why)))
    # auto::from_reader
    ps, dv = execd("auto::from_reader", "ar")
    n_paths += len(ps) + len(dv)
    why = []

    def first_decisions(p):
        out = {}
        for sc, d in p.cond:
            if sc[0] == "discr" and is_call(sc[1], "json::from_str"):
                out.setdefault("json", d == ("eq", "0"))
            if sc[0] == "discr" and is_call(sc[1], "gambit::from_str"):
                out.setdefault("gambit", d == ("eq", "0"))
        return out
    for p in ps:
        dd = first_decisions(p)
        r = p.env["_0"]
        src = r[1][1] if isinstance(r, tuple) and r[0] == "field" and r[1][0] == "downcast" and r[1][2] == "Ok" else None
        if dd.get("json") is True:
            if not is_call(src, "json::from_str"):
                why.append("JSON parsed but something else is returned")
        elif dd.get("json") is False and dd.get("gambit") is True:
            if not is_call(src, "gambit::from_str"):
                why.append("Gambit parsed but something else is returned")
        else:
            why.append(f"a game is returned although no format parsed: {dd}")
        if src is not None and "ar:_1" not in repr(src):
            why.append("the text parsed is not what was read from the input")
    if not dv:
        why.append("no diverging path when neither format parses")
    for p in dv:
        dd = first_decisions(p)
        if dd.get("json") is not False or dd.get("gambit") is not False or "#auto-error" not in repr(p.calls[-1][1]):
            if "read_to_string" in repr(p.calls[-1]) or "unwrap" in p.calls[-1][0]:
                continue
            why.append(f"diverges in another situation or with another diagnostic: {dd}")
    structural.append(("glue-auto", "auto detection returns the JSON game if JSON parses, else the Gambit game if Gambit parses, else diverges with the #auto-error diagnostic", not why, "; ".join(why[:3])))
    # gambit::from_reader
    ps, dv = execd("gambit::from_reader", "gr")
    n_paths += len(ps) + len(dv)
    inner = expect_of(ps[0].env["_0"], "gambit::from_str", "#gambit-error") if len(ps) == 1 else None
    ok = inner is not None and "gr:_1" in repr(inner) and "read_to_string" in repr(inner) and all("unwrap" in p.calls[-1][0] or "read_to_string" in repr(p.calls[-1]) for p in dv)
    structural.append(("glue-gambit-reader", "gambit::from_reader returns only the Ok value of from_str on the text read; a parse error leaves through expect with the #gambit-error diagnostic", ok, repr(ps[0].env.get("_0"))[:200] if ps else "no path"))
    # gambit::from_str
    ps, dv = execd("gambit::from_str", "gs")
    n_paths += len(ps) + len(dv)
    why = []
    oks = [p for p in ps if isinstance(p.env["_0"], tuple) and p.env["_0"][0] == "agg" and p.env["_0"][1] == "Ok"]
    errs = [p for p in ps if p not in oks]
    if len(oks) != 1 or len(errs) != 1 or len(dv) != 1:
        why.append(f"{len(oks)} accepting, {len(errs)} error-returning, {len(dv)} diverging paths")
    else:
        p = oks[0]
        parsed = [d for sc, d in p.cond if sc[0] == "discr" and "gambit_parser::Error" in repr(sc)[:200] and "Try>::branch" in repr(sc)[:200]]
        two = [(sc, d) for sc, d in p.cond if sc[0] == "op" and sc[1] in ("Ne", "Eq") and "player_names" in repr(sc) and sc[3] == ("const", "2_usize")]
        if parsed[:1] != [("eq", "0")]:
            why.append("accepts without the parser's Ok arm")
        if len(two) != 1 or not ((two[0][0][1] == "Ne" and two[0][1] == ("eq", "0")) or (two[0][0][1] == "Eq" and two[0][1] != ("eq", "0"))):
            why.append("accepts without the number of players being exactly two")
        r = p.env["_0"][2]["0"]
        g = expect_of(r[1][0], "Game::<std::string::String, std::string::String>::from_root", "#game-error") if r[0] == "tuple" and len(r[1]) == 2 else None
        if g is None:
            why.append("the game is not Game::from_root's Ok value (expect with the #game-error diagnostic)")
        elif not ("get_global_info" in repr(g) and "ExtensiveFormGame::<'_>::root" in repr(g)):
            why.append("the tree converted is not the parsed file's root joined with its global information")
        if r[0] == "tuple" and len(r[1]) == 2 and not ("get_global_info" in repr(r[1][1]) and r[1][1][0] == "field"):
            why.append("the offset returned is not the one computed from the file")
        e = errs[0]
        if not (is_call(e.env["_0"], "<Result<") and "from_residual" in e.env["_0"][1] and [d for sc, d in e.cond][:1] == [("eq", "1")]):
            why.append("the parser's error is not passed on")
        d0 = dv[0]
        if "players" not in repr(d0.calls[-1][1]):
            why.append("the diverging path is not the player-count diagnostic")
    structural.append(("glue-gambit-str", "gambit::from_str returns Ok only if the parser succeeded, the file has exactly two players and Game::from_root accepted the tree; parser errors are passed on, other player counts diverge with a diagnostic", not why, "; ".join(why[:3])))
    # main: nothing is written before reader and solver returned
    ex = mir.Executor(mir.Fn("main", fns["main"]), max_visits=2, max_paths=20000)
    mps = ex.run()
    n_paths += len(mps)
    why = []
    if ex.unknown:
        res["infra"].append(f"main: {sorted(set(ex.unknown))[:3]}")
    for p in mps:
        names = [c[0] for c in p.calls]
        i_read = [i for i, n in enumerate(names) if n.endswith("::from_reader::<std::io::StdinLock<'_>>") or "from_reader::<" in n and n.split("::")[0] in ("json", "gambit", "auto")]
        i_solve = [i for i, n in enumerate(names) if n.startswith("Game::<") and "::solve" in n]
        i_unwrap = [i for i, n in enumerate(names) if "SolveError>::unwrap" in n]
        i_write = [i for i, n in enumerate(names) if "to_writer" in n]
        i_out = [i for i, n in enumerate(names) if n.startswith("std::io::stdout") or n.startswith("File::create")]
        if not (len(i_read) == 1 and len(i_solve) == 1 and len(i_unwrap) == 1 and len(i_write) == 1):
            why.append(f"a complete path has {len(i_read)} reads, {len(i_solve)} solves, {len(i_unwrap)} unwraps, {len(i_write)} writes")
            break
        if not (i_read[0] < i_solve[0] < i_unwrap[0] < i_write[0] and all(i > i_unwrap[0] for i in i_out)):
            why.append("the output is opened or written before the reader and the solver have returned")
            break
        if not (repr(p.calls[i_read[0]][2]) in repr(p.calls[i_solve[0]][1])):
            why.append("the game solved is not the game read")
            break
    structural.append(("glue-main-order", "main opens / writes its output only after the reader returned a game and the solver returned Ok for THAT game (any earlier failure has already diverged)", not why and bool(mps), "; ".join(why)))
    # gambit::get_global_info: the documented constant-sum rule and the finite-payoff rule (second work-list loop)
    queries = []
    if "get_global_info" in fns:
        import smt
        fn = mir.Fn("ggi", fns["get_global_info"])
        pops = [b for b, (_, t, _) in fn.blocks.items() if "::pop(" in t and "[f64; 2])>::pop(" in t]
        dbg = dict((m.group(1), m.group(2)) for m in re.finditer(r"debug (\w+) => (_\d+);", fns["get_global_info"]))
        accs = {k: dbg.get(k) for k in ("min", "max", "one_min", "one_max", "sum")}
        if len(pops) != 1 or not all(accs.values()):
            res["infra"].append(f"get_global_info: payoff loop / accumulators not as expected ({len(pops)} pops, {accs})")
        else:
            term = fn.blocks[pops[0]][1]
            item = re.match(r"(_\d+) = ", term).group(1)
            nxt = re.search(r"return: (bb\d+)", term).group(1)
            ex = mir.Executor(fn, stops={pops[0]: "continue"}, max_visits=3, max_paths=20000)
            gps = ex.run(entry=nxt)
            if ex.unknown:
                res["infra"].append(f"get_global_info: {sorted(set(ex.unknown))[:3]}")
            n_paths += len(gps) + len(ex.diverged)
            S = {k: ("sym", f"ggi:{v}") for k, v in accs.items()}
            popped = ("sym", f"ggi:{item}")

            def done(p):
                return any(sc == ("discr", popped) and d == ("eq", "0") for sc, d in p.cond)

            def fp_ctx(p):
                ctx = smt.Ctx({}, {})
                for k in ("min", "max", "one_min", "one_max"):
                    ctx.sym_sorts[S[k][1]] = "F"
                conds = []
                for sc, d in p.cond:
                    if sc == ("discr", popped):
                        continue
                    conds.append(ctx.cond(sc, d))
                x = {k: ctx.tr(S[k], "F")[0] for k in ("min", "max", "one_min", "one_max")}
                reject = f"(fp.gt (fp.mul RNE (fp.sub RNE {x['max']} {x['min']}) ((_ to_fp 11 53) RNE 1000.0)) (fp.sub RNE {x['one_max']} {x['one_min']}))"
                return ctx, conds, reject
            tails = [p for p in gps if p.label == "return" and done(p)]
            tdiv = [p for p in ex.diverged if done(p)]
            if len(tails) < 1 or len(tdiv) < 1:
                structural.append(("glue-constant-sum", "after the payoff loop the file is either accepted or rejected as not constant-sum", False, f"{len(tails)} accepting / {len(tdiv)} rejecting tails"))
            for p in tails:
                try:
                    ctx, conds, reject = fp_ctx(p)
                    queries.append(("glue-constant-sum-accept", "a Gambit file is accepted only if (range of the payoff sums) x 1000 <= range of player one's payoffs (README: 0.1 %; every f64)", ctx, conds + [reject]))
                except Exception as e:  # noqa: BLE001
                    res["infra"].append(f"get_global_info: cannot translate the accepting tail: {e}")
                g = p.env.get("_0")
                want = ("op", "Add", S["min"], ("op", "Div", ("op", "Sub", S["max"], S["min"]), ("const", "2f64")))
                structural.append(("glue-constant-sum-offset", "the offset reported for a constant-sum file is the midpoint of the payoff sums", isinstance(g, tuple) and g[0] == "agg" and g[2].get("sum") == want, repr(g[2].get("sum") if isinstance(g, tuple) and g[0] == "agg" else g)[:200]))
            for p in tdiv:
                ok_msg = "#constant-sum" in repr(p.calls[-1][1])
                structural.append(("glue-constant-sum-diagnostic", "the rejection after the payoff loop carries the #constant-sum diagnostic", ok_msg, repr(p.calls[-1][1])[:160]))
                try:
                    ctx, conds, reject = fp_ctx(p)
                    queries.append(("glue-constant-sum-reject", "a Gambit file is rejected as not constant-sum only if (range of the payoff sums) x 1000 > range of player one's payoffs (every f64)", ctx, conds + [f"(not {reject})"]))
                except Exception as e:  # noqa: BLE001
                    res["infra"].append(f"get_global_info: cannot translate the rejecting tail: {e}")
            # terminal arm: the sum, the finite test, the four accumulators
            for p in [q for q in gps if q.label == "continue" and accs["sum"] in q.env] + [q for q in ex.diverged if not done(q)]:
                sm = p.env.get(accs["sum"])
                if sm is None:
                    continue
                okf = (sm[0] == "op" and sm[1] == "Add" and sm[3][0] == "op" and sm[3][1] == "Div" and sm[3][3] == ("const", "2f64") and sm[3][2][0] == "op" and sm[3][2][1] == "Sub"
                       and sm[3][2][3] == sm[2] and sm[2][0] == "idx" and sm[2][2] == 0 and sm[3][2][2][0] == "idx" and sm[3][2][2][2] == 1)
                structural.append(("glue-payoff-sum", "the constant-sum quantity of a terminal is one + (two - one) / 2 of the accumulated payoffs", okf, repr(sm)[:160]))
                fin = [(sc, d) for sc, d in p.cond if isinstance(sc, tuple) and sc[0] == "call" and sc[1].endswith("is_finite") and sc[2] == [sm]]
                if p.label == "diverge":
                    structural.append(("glue-non-finite", "a terminal is rejected with the non-finite diagnostic exactly when its payoff sum is not finite", len(fin) == 1 and fin[0][1] == ("eq", "0") and "non-finite" in repr(p.calls[-1][1]), repr(p.calls[-1][1])[:120]))
                else:
                    one = sm[2]
                    upd = (len(fin) == 1 and fin[0][1] != ("eq", "0")
                           and p.env.get(accs["min"]) == ("call", "core::f64::<impl f64>::min", [S["min"], sm]) and p.env.get(accs["max"]) == ("call", "core::f64::<impl f64>::max", [S["max"], sm])
                           and p.env.get(accs["one_min"]) == ("call", "core::f64::<impl f64>::min", [S["one_min"], one]) and p.env.get(accs["one_max"]) == ("call", "core::f64::<impl f64>::max", [S["one_max"], one]))
                    structural.append(("glue-payoff-ranges", "a finite terminal updates the running min / max of the payoff sums and of player one's payoffs", upd, repr(p.env.get(accs["min"]))[:160]))
    if queries:
        import smt
        results = smt.solve_batch(queries, "z3", timeout=60)
        res["solver_s"] = results["time"]
        for (key_, desc, _, _), (rr, out, txt) in zip(queries, results["verdicts"]):
            # a timeout on a rewritten comparison is a candidate: the native confirmer decides
            structural.append((key_, desc, rr == "unsat", "z3: " + (rr if rr != "error" else "no verdict within 60 s") + " " + " ".join(out.split()[:30])))
    fails = {}
    for name, desc, ok, w in structural:
        if ok:
            res["obligations"].append(("mirsmt-glue", name, desc))
        else:
            fails.setdefault(name, (desc, w))
    for k_, (desc, w) in fails.items():
        f = Finding(prop, f"mirsmt:{k_}", f"{desc} -- {' '.join(str(w).split()[:50])}", harness=None, detail={})
        f.native_kind = "cli"
        res["findings"].append(f)
    res["evaluations"] = len(structural)
    res["units"].append({
        "harness": "mirsmt:cli-readers", "role": "read-or-die glue of the CLI from the binary's MIR: a game is returned only through the parser's and the constructor's success arms; everything else diverges with its diagnostic; output only after read and solve",
        "functions": ["json::from_reader", "json::from_state", "json::from_str", "auto::from_reader", "gambit::from_reader", "gambit::from_str", "main (call order)"],
        "bounds": f"{n_paths} paths (functions are acyclic); parsers, Game::from_root, get_global_info and Result::expect / unwrap uninterpreted (expect/unwrap diverge on Err: std contract)",
        "stubs": ["serde_json, gambit-parser, get_global_info, Game::from_root, Game::solve are uninterpreted"], "assumes": ["Result::expect / unwrap panic on Err and a panic terminates the process with a non-zero status (std)"],
        "verdict": "counterexample" if fails else "holds", "cbmc_checks": len(structural), "obligations_proved": len(res["obligations"]),
        "covers_satisfied": [f"{n_paths} paths"], "verification_s": round(time.time() - t0, 2),
    })
    res["coverage"] = {"glue_paths": n_paths, "glue_structural": len(structural)}
    return res


if __name__ == "__main__":
    r = run("C17", "quick", open(sys.argv[1]).read() if len(sys.argv) > 1 else None)
    print("findings:", [(f.key, f.what[:300]) for f in r["findings"]])
    print("infra:", r["infra"][:4])
    print("obligations:", sorted(set(o[1] for o in r["obligations"])))
    print("evaluations", r["evaluations"])
