"""E2 for the evaluator (src/regret.rs): `regret` (acyclic) and ONE iteration, from an arbitrary state, of
each work-list loop of `expected`, `next_infoset_search` and `optimal_deviations` (first loop), from the
library's MIR. Decides the per-step recurrences of the expected value and of the best-response search:
what a popped terminal / chance / own / opponent node contributes and which (child, weight) pairs it
schedules. That these steps add up to the exact utility and best response over whole trees is an
induction argument and is NOT claimed; the leaves-first resolution loop of `optimal_deviations` is
covered only through its final division and the accumulation of the continuation values."""
import os
import re
import sys
import time

sys.path.insert(0, os.path.dirname(os.path.abspath(__file__)))
sys.path.insert(0, os.path.join(os.path.dirname(os.path.abspath(__file__)), "..", "driver"))
import driver_check  # noqa: E402
import mir  # noqa: E402
import smt  # noqa: E402
from common import Finding, REPO  # noqa: E402


def _inner_vec(t):
    """iter(deref(v)) -> v"""
    if isinstance(t, tuple) and t[0] == "call" and t[1].startswith("core::slice::<impl [") and t[1].endswith("::iter"):
        t = t[2][0]
    if isinstance(t, tuple) and t[0] == "call" and t[1].endswith("as Deref>::deref"):
        t = t[2][0]
    return t


def struct_fields(name, file="lib.rs"):
    """declared field order of a struct (MIR shows positions only)"""
    src = open(os.path.join(REPO, "src", file)).read()
    m = re.search(r"struct " + name + r"\b[^{;]*\{(.*?)\n\}", src, re.S)
    if not m:
        return None
    return re.findall(r"^\s*(?:pub(?:\([a-z]+\))? )?(\w+):", m.group(1), re.M)


def is_mul(t, a, b):
    if not isinstance(t, tuple):
        return False
    if t[0] == "op" and t[1] == "Mul":
        return (t[2], t[3]) in ((a, b), (b, a))
    if t[0] == "call" and "as Mul<" in t[1] and len(t[2]) == 2:
        return (t[2][0], t[2][1]) in ((a, b), (b, a))
    return False


def strip_iter(t, elem):
    if isinstance(t, tuple) and t[0] == "call" and t[1] == f"core::slice::<impl [{elem}]>::iter":
        return t[2][0]
    return None


class Iter:
    """one iteration of a `while let Some((node, reach)) = queue.pop()` loop"""

    def __init__(self, fns, key, name, unroll=3):
        self.name = name
        self.fn = mir.Fn(name, fns[key])
        pops = [b for b, (_, t, _) in self.fn.blocks.items() if "Vec::<(&Node, f64)>::pop(" in t]
        self.ok = len(pops) == 1
        self.why = "" if self.ok else f"{len(pops)} work-list pops"
        if not self.ok:
            return
        self.pop = pops[0]
        term = self.fn.blocks[self.pop][1]
        self.item_local = re.match(r"(_\d+) = ", term).group(1)
        nxt = re.search(r"return: (bb\d+)", term).group(1)
        ex = mir.Executor(self.fn, stops={self.pop: "continue"}, max_visits=unroll, max_paths=200000)
        self.paths = ex.run(entry=nxt)
        self.unknown = sorted(set(ex.unknown))
        item = ("field", ("downcast", ("sym", f"{name}:{self.item_local}"), "Some"), 0)
        self.node = ("field", item, 0)
        self.reach = ("field", item, 1)
        self.debug = dict((m.group(1), m.group(2)) for m in re.finditer(r"debug (\w+) => (_\d+);", fns[key]))
        # state before the loop: run from the entry to the first visit of the pop block
        ex0 = mir.Executor(self.fn, stops={self.pop: "head"}, max_visits=2)
        self.pre = [p for p in ex0.run() if p.label == "head"]
        self.fn_text = fns[key]

    def kind(self, p):
        for s, d in p.cond:
            if s == ("discr", self.node) and d[0] == "eq":
                return {"0": "terminal", "1": "chance", "2": "player"}.get(d[1])
        return None

    def elements(self, p):
        """zip elements seen on the path: (prob term, child term, next-call term)"""
        out = []
        for c in p.calls:
            if c[0].startswith("<std::iter::Zip<") and c[0].endswith("as Iterator>::next"):
                r = c[2]
                some = any(s == ("discr", r) and d == ("eq", "1") for s, d in p.cond)
                if some:
                    e = ("field", ("downcast", r, "Some"), 0)
                    out.append((("field", e, 0), ("field", e, 1), r))
        return out

    def zip_sources(self, p):
        for c in p.calls:
            if "as Iterator>::zip::<" in c[0]:
                return strip_iter(c[1][0], "f64"), strip_iter(c[1][1], "Node")
        return None, None

    def pushes(self, p):
        return [c[1][1] for c in p.calls if c[0] == "Vec::<(&Node, f64)>::push"]


def run(prop, tier, mir_text=None):
    t0 = time.time()
    res = {"findings": [], "infra": [], "evaluations": 0, "obligations": [], "solver_s": 0.0, "units": [], "coverage": {}}
    text, err = (mir_text, "") if mir_text is not None else driver_check.dump_lib_mir()
    if text is None:
        res["infra"].append("MIR dump of the library failed: " + err[-300:])
        return res
    fns = mir.split_functions(text)
    for k in ("expected", "optimal_deviations", "next_infoset_search", "regret"):
        if k not in fns:
            res["infra"].append(f"{k} not found in the MIR dump")
            return res
    chance_f = struct_fields("Chance")
    player_f = struct_fields("Player")
    if not chance_f or not player_f or set(chance_f) != {"outcomes", "infoset"} or set(player_f) != {"num", "infoset", "actions"}:
        res["infra"].append(f"struct Chance / Player not as expected: {chance_f} {player_f}")
        return res
    structural, queries = [], []
    n_paths = 0
    UNROLL = 5 if tier == "thorough" else 3     # inner loop heads visited at most UNROLL times: <= UNROLL-1 children per node

    def node_parts(it):
        ch = ("field", ("downcast", it.node, "Chance"), 0)
        pl = ("field", ("downcast", it.node, "Player"), 0)
        return {
            "payoff": ("field", ("downcast", it.node, "Terminal"), 0),
            "c_info": ("field", ch, chance_f.index("infoset")), "c_kids": ("field", ch, chance_f.index("outcomes")),
            "p_num": ("field", pl, player_f.index("num")), "p_info": ("field", pl, player_f.index("infoset")), "p_kids": ("field", pl, player_f.index("actions")),
            "player": pl,
        }

    def boxed(t, base):
        """Box<[Node]> is read through its pointer fields: accept any field chain rooted at `base`"""
        while isinstance(t, tuple) and t[0] == "field" and t != base:
            t = t[1]
        return t == base

    def chance_arm(tag, it, p, chance_tables):
        np_ = node_parts(it)
        src_p, src_k = it.zip_sources(p)
        want_p = ("call", "<impl ChanceInfoset as ChanceInfoset>::probs", [("index", chance_tables, np_["c_info"])])
        els = it.elements(p)
        ps_ = it.pushes(p)
        ok = src_p == want_p and boxed(src_k, np_["c_kids"]) and len(ps_) == len(els)
        why = []
        if src_p != want_p:
            why.append("probabilities are not those of the node's chance infoset")
        if not boxed(src_k, np_["c_kids"]):
            why.append("children are not the node's outcomes")
        for (pr, kid, _), pu in zip(els, ps_):
            if not (pu[0] == "tuple" and pu[1][0] == kid and is_mul(pu[1][1], pr, it.reach)):
                ok = False
                why.append(f"an outcome is not scheduled as (its child, its probability x reach): {repr(pu[1][1])[:120]}")
        if len(ps_) != len(els):
            why.append(f"{len(els)} outcomes, {len(ps_)} scheduled")
        structural.append((f"ev-{tag}-chance", "a chance node schedules every outcome with weight probability x reach (probabilities of the node's chance infoset)", ok, "; ".join(why)))

    def weighted_arm(tag, it, p, probs_src_ok, desc, strict=False):
        """opponent / acting-player arm: every action with positive probability scheduled with probability x reach"""
        np_ = node_parts(it)
        src_p, src_k = it.zip_sources(p)
        els = it.elements(p)
        ps_ = it.pushes(p)
        why = []
        if not probs_src_ok(src_p, np_):
            why.append("probabilities are not the acting player's strategy at the node's infoset")
        if not boxed(src_k, np_["p_kids"]):
            why.append("children are not the node's actions")
        pushed_kids = {}
        for pu in ps_:
            if pu[0] == "tuple":
                pushed_kids[repr(pu[1][0])] = pu[1][1]
        for pr, kid, _ in els:
            w = pushed_kids.get(repr(kid))
            if w is not None and not is_mul(w, pr, it.reach):
                why.append(f"an action is scheduled with a weight other than probability x reach: {repr(w)[:120]}")
        if len(ps_) != len([1 for _, kid, _ in els if repr(kid) in pushed_kids]):
            why.append("something other than the node's actions is scheduled")
        structural.append((f"ev-{tag}", desc, not why, "; ".join(why)))
        # the solver decides which actions may be skipped: exactly those without positive probability
        ctx = smt.Ctx({}, {})
        names = {}
        for pr, _, _ in els:
            names.setdefault(repr(pr), ("sym", "prob%d" % len(names)))
        for v in names.values():
            ctx.sym_sorts[v[1]] = "F"

        def sub(t):
            if isinstance(t, tuple):
                r = names.get(repr(t))
                return r if r is not None else tuple(sub(x) for x in t)
            if isinstance(t, list):
                return [sub(x) for x in t]
            if isinstance(t, dict):
                return {k: sub(v) for k, v in t.items()}
            return t
        conds = []
        for s_, d_ in p.cond:
            try:
                conds.append(ctx.cond(sub(s_), d_))
            except Exception as e:  # noqa: BLE001
                res["infra"].append(f"{it.name}: cannot translate a branch condition: {e}")
        axioms = []
        for k in list(ctx.decls):
            if k.startswith("f_") and "PartialOrd___gt_FF_B" in k:
                axioms.append(f"(forall ((x {smt.FP}) (y {smt.FP})) (= ({k} x y) (fp.gt x y)))")
            if k.startswith("f_") and "PartialOrd___ge_FF_B" in k:
                axioms.append(f"(forall ((x {smt.FP}) (y {smt.FP})) (= ({k} x y) (fp.geq x y)))")
        for pr, kid, _ in els:
            x, _ = ctx.tr(sub(pr), "F")
            pos = f"(fp.gt {x} ((_ to_fp 11 53) RNE 0.0))"
            if repr(kid) in pushed_kids:
                # in `expected` a zero-probability action adds 0 x value (harmless, not constrained); in the
                # best-response search it would create infoset nodes with reach 0 and a 0/0 value
                if strict:
                    queries.append((f"ev-{tag}-only-positive", "an opponent action is followed only if its probability is positive (every f64): unreachable infosets must not be collected", ctx, axioms + conds + [f"(not {pos})"]))
            else:
                queries.append((f"ev-{tag}-skip", "an action is left out only if its probability is not positive (every f64)", ctx, axioms + conds + [pos]))

    # ------------------------------------------------------------------ expected
    it = Iter(fns, "expected", "expected", UNROLL)
    if not it.ok or it.unknown:
        res["infra"].append(f"expected: {it.why} {it.unknown[:3]}")
    else:
        acc = it.debug.get("expected")
        for p in it.paths:
            n_paths += 1
            if p.label == "return":
                structural.append(("ev-exp-return", "when the work list is empty the accumulated sum is returned", p.env.get("_0") == ("sym", f"expected:{acc}") or p.env.get("_0") == p.env.get(acc), repr(p.env.get("_0"))[:120]))
                continue
            k = it.kind(p)
            np_ = node_parts(it)
            if k == "terminal":
                a0 = ("sym", f"expected:{acc}")
                v = p.env.get(acc)
                ok = isinstance(v, tuple) and v[0] == "op" and v[1] == "Add" and ((v[2] == a0 and is_mul(v[3], it.reach, np_["payoff"])) or (v[3] == a0 and is_mul(v[2], it.reach, np_["payoff"])))
                structural.append(("ev-exp-terminal", "a terminal node adds reach x payoff to the expected value", ok and not it.pushes(p), repr(v)[:200]))
            elif k == "chance":
                chance_arm("exp", it, p, ("sym", "expected:_2"))
            elif k == "player":
                def src_ok(src, np2):
                    return src == ("call", "<impl AsRef<[f64]> as AsRef<[f64]>>::as_ref", [("index", ("call", "PlayerNum::ind::<&[impl AsRef<[f64]>]>", [np2["p_num"], ("sym", "expected:_3")]), np2["p_info"])])
                weighted_arm("exp-player", it, p, src_ok, "a decision node schedules its actions with weight (acting player's probability) x reach, from THAT player's strategy at the node's infoset")
            else:
                structural.append(("ev-exp-kinds", "every popped node is a terminal, chance or decision node", False, str(p.cond[:2])[:200]))
        pre_ok = len(it.pre) == 1 and it.pre[0].env.get(acc) == ("const", "0f64") and "('const', '1f64')" in repr(it.pre[0].env) and "expected:_1" in repr(it.pre[0].env)
        structural.append(("ev-exp-init", "the sum starts at 0 with the root scheduled at reach 1", pre_ok, f"{len(it.pre)} paths to the loop head"))

    # ------------------------------------------------------------------ next_infoset_search
    it = Iter(fns, "next_infoset_search", "nis", UNROLL)
    if not it.ok or it.unknown:
        res["infra"].append(f"next_infoset_search: {it.why} {it.unknown[:3]}")
    else:
        acc = it.debug.get("res")
        P1 = ("const", "PLAYER_ONE")

        def side(p, np2):
            """(node's player is player one?, evaluating for player one?) from the branch decisions"""
            num_one, p1 = None, None
            for s, d in p.cond:
                if s == P1 or (s[0] == "field" and s[1][0] == "tuple" and s[2] == 1 and s[1][1][1] == P1):
                    p1 = (d != ("eq", "0")) if d[0] == "eq" else True
                if s[0] == "discr" and s[1][0] == "field" and s[1][1][0] == "tuple" and s[1][2] == 0 and s[1][1][1][0] == np2["p_num"] and d[0] == "eq":
                    num_one = d[1] == "0"
            return num_one, p1
        for p in it.paths:
            n_paths += 1
            if p.label == "return":
                structural.append(("ev-nis-return", "when the work list is empty the accumulated value is returned", p.env.get("_0") in (("sym", f"nis:{acc}"), p.env.get(acc)), repr(p.env.get("_0"))[:120]))
                continue
            k = it.kind(p)
            np_ = node_parts(it)
            a0 = ("sym", f"nis:{acc}")
            v = p.env.get(acc)
            if k == "terminal":
                p1 = next(((d != ("eq", "0")) for s, d in p.cond if s == P1), None)
                want = "Add" if p1 else "Sub"
                ok = p1 is not None and isinstance(v, tuple) and v[0] == "op" and v[1] == want and v[2] == a0 and is_mul(v[3], it.reach, np_["payoff"]) and not it.pushes(p)
                structural.append(("ev-nis-terminal", "a terminal node adds reach x payoff in the deviating player's own utility (payoff for player one, its negation for player two)", ok, f"for player one: {p1}; {repr(v)[:160]}"))
            elif k == "chance":
                chance_arm("nis", it, p, ("sym", "nis:_4"))
            elif k == "player":
                num_one, p1 = side(p, np_)
                if num_one is None or p1 is None:
                    structural.append(("ev-nis-sides", "own and opponent nodes are told apart by (node's player, evaluated player)", False, str([(repr(s)[:60], d) for s, d in p.cond][:5])))
                    continue
                if num_one == p1:
                    mu = None
                    ok = isinstance(v, tuple) and v[0] == "op" and v[1] == "Add" and v[2] == a0 and not it.pushes(p)
                    if ok:
                        w = v[3]
                        info = ("index", ("sym", "nis:_3"), np_["p_info"])
                        ok = any(is_mul(w, ("field", info, fi), it.reach) for fi in range(3))
                        mu = repr(w)[:160]
                    structural.append(("ev-nis-own", "an own decision node contributes reach x (the value already resolved for ITS infoset) and is not descended into", ok, str(mu)))
                else:
                    def src_ok(src, np2):
                        return src == ("call", "<impl AsRef<[f64]> as AsRef<[f64]>>::as_ref", [("index", ("sym", "nis:_5"), np2["p_info"])])
                    weighted_arm("nis-opponent", it, p, src_ok, "an opponent node schedules its actions with weight (opponent's probability at the node's infoset) x reach", strict=True)
        pre_ok = len(it.pre) == 1 and it.pre[0].env.get(acc) == ("const", "0f64") and any(c[0] == "Vec::<(&Node, f64)>::push" and c[1][1] == ("tuple", [("sym", "nis:_1"), ("const", "1f64")]) for c in it.pre[0].calls)
        structural.append(("ev-nis-init", "the value starts at 0 with the start node scheduled at reach 1", pre_ok, f"{len(it.pre)} paths to the loop head"))

    # ------------------------------------------------------------------ optimal_deviations, first loop
    it = Iter(fns, "optimal_deviations", "od", UNROLL)
    if not it.ok or it.unknown:
        res["infra"].append(f"optimal_deviations: {it.why} {it.unknown[:3]}")
    else:
        P1 = ("const", "PLAYER_ONE")
        for p in it.paths:
            if p.label != "continue":
                continue
            n_paths += 1
            k = it.kind(p)
            np_ = node_parts(it)
            if k == "terminal":
                structural.append(("ev-od-terminal", "a terminal node schedules nothing while reach is collected", not it.pushes(p), ""))
            elif k == "chance":
                chance_arm("od", it, p, ("sym", "od:_2"))
            elif k == "player":
                num_one, p1 = None, None
                for s, d in p.cond:
                    if s[0] == "field" and s[1][0] == "tuple" and s[2] == 1 and s[1][1][1] == P1:
                        p1 = (d != ("eq", "0")) if d[0] == "eq" else True
                    if s[0] == "discr" and s[1][0] == "field" and s[1][1][0] == "tuple" and s[1][2] == 0 and s[1][1][1][0] == np_["p_num"] and d[0] == "eq":
                        num_one = d[1] == "0"
                if num_one is None or p1 is None:
                    structural.append(("ev-od-sides", "own and opponent nodes are told apart by (node's player, evaluated player)", False, str([(repr(s)[:60], d) for s, d in p.cond][:5])))
                    continue
                if num_one == p1:
                    why = []
                    rec = [c for c in p.calls if c[0].startswith("Vec::<(&Player, f64)>::push")]
                    if not (len(rec) == 1 and rec[0][1][1] == ("tuple", [np_["player"], it.reach]) and "od:_5" in repr(rec[0][1][0]) and repr(np_["p_info"]) in repr(rec[0][1][0])):
                        why.append("the node is not recorded with its reach under ITS infoset")
                    kids = [c for c in p.calls if c[0].endswith("as Iterator>::next") and "Iter<'_, Node>" in c[0] and "Zip" not in c[0]]
                    some = [c for c in kids if any(s == ("discr", c[2]) and d == ("eq", "1") for s, d in p.cond)]
                    ps_ = it.pushes(p)
                    if len(ps_) != len(some) or any(not (pu[0] == "tuple" and pu[1][1] == it.reach and pu[1][0] == ("field", ("downcast", c[2], "Some"), 0)) for pu, c in zip(ps_, some)):
                        why.append("not every action's child is scheduled with the unchanged reach")
                    prevs = [c for c in p.calls if "PlayerInfoset>::prev_infoset" in c[0]]
                    if not (len(prevs) == 1 and prevs[0][1] == [("index", ("sym", "od:_3"), np_["p_info"])]):
                        why.append("the previous infoset looked up is not that of the node's infoset")
                    else:
                        has_prev = any(s == ("discr", prevs[0][2]) and d == ("eq", "1") for s, d in p.cond)
                        incs = [x for x in p.stores if isinstance(x[1], tuple) and x[1][0] == "op" and x[1][1] in ("Add", "AddWithOverflow") and x[1][3] == ("const", "1_usize")]
                        fut = [x for x in p.env.values() if isinstance(x, tuple) and x[0] == "op" and x[1] in ("Add", "AddWithOverflow") and len(x) > 3 and x[3] == ("const", "1_usize")]
                        if has_prev and not (incs or fut):
                            why.append("the pending-node count of the previous infoset is not incremented")
                        if not has_prev and incs:
                            why.append("a pending-node count is incremented without a previous infoset")
                    structural.append(("ev-od-own", "an own decision node is recorded (node, reach) under its infoset, counts as pending for its previous infoset, and all its children are scheduled with the same reach", not why, "; ".join(why)))
                else:
                    def src_ok(src, np2):
                        return src == ("call", "<impl AsRef<[f64]> as AsRef<[f64]>>::as_ref", [("index", ("sym", "od:_4"), np2["p_info"])])
                    weighted_arm("od-opponent", it, p, src_ok, "an opponent node schedules its actions with weight (opponent's probability at the node's infoset) x reach", strict=True)


    # ------------------------------------------------------------------ optimal_deviations, resolution loop
    dev_f = struct_fields("DeviationInfo", "regret.rs")
    fn = mir.Fn("od", fns["optimal_deviations"])
    pops = [b for b, (_, t, _) in fn.blocks.items() if "Vec::<usize>::pop(" in t]
    if len(pops) != 1 or not dev_f or set(dev_f) != {"future_nodes", "prob_nodes", "max_utility"}:
        res["infra"].append(f"optimal_deviations: resolution loop / DeviationInfo not as expected ({len(pops)} pops, fields {dev_f})")
    else:
        F_FUT, F_NODES, F_MAX = dev_f.index("future_nodes"), dev_f.index("prob_nodes"), dev_f.index("max_utility")
        term = fn.blocks[pops[0]][1]
        item_local = re.match(r"(_\d+) = ", term).group(1)
        nxt = re.search(r"return: (bb\d+)", term).group(1)
        ex = mir.Executor(fn, stops={pops[0]: "continue"}, max_visits=UNROLL, max_paths=200000)
        rpaths = ex.run(entry=nxt)
        if ex.unknown:
            res["infra"].append(f"optimal_deviations (resolution loop): {sorted(set(ex.unknown))[:3]}")
        INFO = ("field", ("downcast", ("sym", f"od:{item_local}"), "Some"), 0)
        TABLE = ("sym", "od:_5")

        def rooted(t, base):
            while isinstance(t, tuple) and t[0] == "field":
                t = t[1]
            return t == base

        def slot(t, idx, field):
            """t == infosets[idx].field (the boxed slice is read through pointer fields)"""
            return (isinstance(t, tuple) and t[0] == "field" and t[2] == field and t[1][0] == "index" and rooted(t[1][1], TABLE) and t[1][2] == idx)
        for p in rpaths:
            n_paths += 1
            if p.label == "return":
                r = p.env.get("_0")
                ok = (isinstance(r, tuple) and r[0] == "call" and r[1].startswith("next_infoset_search::<PLAYER_ONE") and r[2][0] == ("sym", "od:_1") and rooted(r[2][2], TABLE)
                      and r[2][3] == ("sym", "od:_2") and r[2][4] == ("sym", "od:_4"))
                structural.append(("ev-res-return", "when every infoset is resolved the best-response value is the continuation value of the root (same evaluated player, same tables)", ok, repr(r)[:200]))
                continue
            why = []
            takes = [c for c in p.calls if c[0].startswith("std::mem::take::<Vec<(&Player, f64)>>")]
            if not (len(takes) == 1 and slot(takes[0][1][0], INFO, F_NODES)):
                why.append("the nodes resolved are not those recorded for the popped infoset")
                structural.append(("ev-res-nodes", "an infoset is resolved over exactly the nodes recorded for it", False, "; ".join(why)))
                continue
            nodes = takes[0][2]
            sums = [c for c in p.calls if "as Iterator>::sum::<f64" in c[0]]
            tot = sums[0][2] if len(sums) == 1 else None
            clo = None
            if tot is not None:
                mp = sums[0][1][0]
                if mp[0] == "call" and "as Iterator>::map::<" in mp[1] and nodes == _inner_vec(mp[2][0]) and mp[2][1][0] == "closure":
                    clo = mp[2][1][1]
            if clo is None:
                why.append("the total reach is not the sum over the infoset's nodes")
            else:
                body = next((v for k_, v in fns.items() if k_.startswith("optimal_deviations::{closure#") and "{closure@" + clo + "}" in v.split("\n", 1)[0]), None)
                cps = mir.Executor(mir.Fn("c", body), max_visits=2).run() if body else []
                if not (len(cps) == 1 and cps[0].env.get("_0") == ("field", ("sym", "c:_2"), 1)):
                    why.append("the summed quantity is not each node's reach")
            structural.append(("ev-res-total-reach", "the total reach of an infoset is the sum of the reach of its recorded nodes", not why, "; ".join(why)))
            # previous infoset bookkeeping
            why = []
            prevs = [c for c in p.calls if "PlayerInfoset>::prev_infoset" in c[0]]
            if not (len(prevs) == 1 and prevs[0][1] == [("index", ("sym", "od:_3"), INFO)]):
                why.append("the previous infoset looked up is not that of the popped infoset")
            else:
                has_prev = any(s_ == ("discr", prevs[0][2]) and d_ == ("eq", "1") for s_, d_ in p.cond)
                prev = ("field", ("downcast", prevs[0][2], "Some"), 0)
                decs = [x for x in p.stores if isinstance(x[1], tuple) and x[1][0] == "op" and x[1][1] in ("Sub", "SubWithOverflow")]
                qpush = [c for c in p.calls if c[0] == "Vec::<usize>::push"]
                if not has_prev:
                    if decs or qpush:
                        why.append("bookkeeping without a previous infoset")
                else:
                    lens = [c for c in p.calls if c[0] == "Vec::<(&Player, f64)>::len" and c[1] == [nodes]]
                    okd = len(decs) == 1 and len(lens) == 1 and decs[0][1][3] == lens[0][2]
                    if okd:
                        m = re.match(r"\(\(\*(_\d+)\)\[(_\d+)\]\.(\d+): ", decs[0][0][1]) if decs[0][0][0] == "mutref" else None
                        okd = bool(m) and int(m.group(3)) == F_FUT and p.env.get(m.group(2)) == prev and decs[0][1][2] == decs[0][0]
                    if not okd:
                        why.append("the pending count of the previous infoset is not decreased by the number of nodes just resolved")
                    eqs = [(s_, d_) for s_, d_ in p.cond if isinstance(s_, tuple) and s_[0] == "call" and "as PartialEq>::eq" in s_[1] and slot(s_[2][0], prev, F_FUT) and s_[2][1] == ("const", "0_usize")]
                    if len(eqs) != 1:
                        why.append("readiness of the previous infoset is not `pending count == 0`")
                    else:
                        ready = eqs[0][1] != ("eq", "0")
                        if ready != (len(qpush) == 1 and qpush[0][1][1] == prev) or (not ready and qpush):
                            why.append("the previous infoset is queued exactly when its pending count reaches zero: violated")
            structural.append(("ev-res-pending", "resolving an infoset decreases the pending count of its previous infoset by its number of nodes and queues that infoset exactly when the count reaches 0", not why, "; ".join(why)))
            # accumulation of the continuation values
            why = []
            fe = [c for c in p.calls if c[0].startswith("std::vec::from_elem::<f64>")]
            if not (len(fe) == 1 and fe[0][1] == [("const", "0f64"), ("call", "<impl PlayerInfoset as PlayerInfoset>::num_actions", [("index", ("sym", "od:_3"), INFO)])]):
                why.append("per-action values do not start at 0 with one slot per action of the infoset")
            node_elems = [("field", ("downcast", c[2], "Some"), 0) for c in p.calls if c[0] == "<std::vec::IntoIter<(&Player, f64)> as Iterator>::next"
                          and any(s_ == ("discr", c[2]) and d_ == ("eq", "1") for s_, d_ in p.cond)]
            acc = [x for x in p.stores if isinstance(x[1], tuple) and x[1][0] == "op" and x[1][1] == "Add"]
            nis = [c for c in p.calls if c[0].startswith("next_infoset_search::<PLAYER_ONE")]
            if len(acc) != len(nis):
                why.append(f"{len(nis)} continuation values, {len(acc)} accumulations")
            for x, c in zip(acc, nis):
                ref, val = x[0], x[1]
                elem = ref[1] if ref[0] == "field" else None
                a = c[1]
                okc = (elem is not None and ref == ("field", elem, 1) and a[0] == ("field", elem, 0) and rooted(a[2], TABLE) and a[3] == ("sym", "od:_2") and a[4] == ("sym", "od:_4")
                       and val[2] == ref and any(is_mul(val[3], c[2], ("field", ne, 1)) for ne in node_elems))
                if not okc:
                    why.append(f"an action's value is not increased by (continuation value of ITS child) x (reach of the node): {repr(val)[:140]}")
                    break
            structural.append(("ev-res-accumulate", "each action's value is the sum over the infoset's nodes of reach x continuation value of that action's child", not why, "; ".join(why)))
            # the resolved value
            why = []
            fin = [x for x in p.stores if x[3].startswith("((*") and isinstance(x[0], tuple) and x[0][0] == "index"]
            okf = False
            if len(fin) == 1 and rooted(fin[0][0][1], TABLE) and fin[0][0][2] == INFO and re.search(r"\.%d: f64\)" % F_MAX, fin[0][3]):
                v = fin[0][1]
                okf = (v[0] == "op" and v[1] == "Div" and v[3] == tot and v[2][0] == "call" and v[2][1].startswith("Option::<f64>::unwrap") and v[2][2][0][0] == "call"
                       and "reduce::<" in v[2][2][0][1] and "f64>::max" in v[2][2][0][1])
            if not okf:
                why.append("the infoset's value is not max over actions / total reach: " + (repr(fin[0][1])[:160] if fin else "no store"))
            structural.append(("ev-res-value", "the value resolved for an infoset is (max over its actions of the accumulated value) / (total reach of the infoset)", okf, "; ".join(why)))
        # which infosets start in the queue
        fk = [k_ for k_, v in fns.items() if k_.startswith("optimal_deviations::{closure#") and "-> bool" in v.split("\n", 1)[0]]
        okq, whyq = False, "filter closure not found"
        if len(fk) == 1:
            cps = mir.Executor(mir.Fn("c", fns[fk[0]]), max_visits=2).run()
            dev = ("field", ("sym", "c:_2"), 1)
            okq = len(cps) == 2
            for cp in cps:
                if len(cp.cond) != 1:
                    okq = False
                    continue
                (sc, d), = cp.cond
                if sc != ("op", "Eq", ("field", dev, F_FUT), ("const", "0_usize")):
                    okq = False
                if d == ("eq", "0") and cp.env.get("_0") != ("const", "false"):
                    okq = False
                if d != ("eq", "0") and cp.env.get("_0") != ("un", "Not", ("call", "Vec::<(&Player, f64)>::is_empty", [("field", dev, F_NODES)])):
                    okq = False
            whyq = str([(repr(cp.cond)[:120], repr(cp.env.get("_0"))[:80]) for cp in cps])
        structural.append(("ev-res-start", "resolution starts from the infosets with no pending later node and at least one recorded node", okq, whyq))

    # ------------------------------------------------------------------ regret (acyclic)
    fn = mir.Fn("regret", fns["regret"])
    ex = mir.Executor(fn)
    ps = ex.run()
    if ex.unknown or len(ps) != 1:
        res["infra"].append(f"regret: {sorted(set(ex.unknown))[:3]} / {len(ps)} paths")
    else:
        p = ps[0]
        r = p.env["_0"]
        A = [("sym", f"regret:_{i}") for i in range(5)]
        e_call = next((c for c in p.calls if c[0].startswith("expected::<")), None)
        one = next((c for c in p.calls if c[0].startswith("optimal_deviations::<true")), None)
        two = next((c for c in p.calls if c[0].startswith("optimal_deviations::<false")), None)
        ok_args = (e_call is not None and e_call[1] == [A[1], A[2], A[4]] and one is not None and one[1] == [A[1], A[2], ("idx", A[3], 0), ("idx", A[4], 1)]
                   and two is not None and two[1] == [A[1], A[2], ("idx", A[3], 1), ("idx", A[4], 0)])
        structural.append(("ev-regret-tables", "each player's best response is searched over THAT player's infosets against the OTHER player's strategy, from the same root", ok_args,
                           f"{[repr(c[1])[:160] for c in (one, two) if c]}"))
        if ok_args and r[0] == "tuple" and len(r[1]) == 2 and r[1][1][0] == "tuple":
            def clamp(t, a, b, op):
                return (isinstance(t, tuple) and t[0] == "call" and t[1].endswith("f64>::max") and t[2][1] == ("const", "0f64") and t[2][0][0] == "op" and t[2][0][1] == op
                        and ((t[2][0][2], t[2][0][3]) == (a, b) or (op == "Add" and (t[2][0][2], t[2][0][3]) == (b, a))))
            plain = r[1][0] == e_call[2] and clamp(r[1][1][1][0], one[2], e_call[2], "Sub") and clamp(r[1][1][1][1], two[2], e_call[2], "Add")
            if plain:
                structural.append(("ev-regret-formula", "utility = expected value; regret one = max(best one - utility, 0); regret two = max(best two (own utility) + utility, 0)", True, ""))
            else:
                # a rewritten formula: z3 decides whether it is the same function of (utility, best one, best two)
                ctx = smt.Ctx({}, {})
                ctx.RET = dict(ctx.RET)
                names = {repr(e_call[2]): ("sym", "u"), repr(one[2]): ("sym", "b1"), repr(two[2]): ("sym", "b2")}
                for v in names.values():
                    ctx.sym_sorts[v[1]] = "F"

                def sub(t):
                    if isinstance(t, tuple):
                        rr = names.get(repr(t))
                        return rr if rr is not None else tuple(sub(x) for x in t)
                    if isinstance(t, list):
                        return [sub(x) for x in t]
                    return t
                try:
                    u, _ = ctx.tr(sub(r[1][0]), "F")
                    r1, _ = ctx.tr(sub(r[1][1][1][0]), "F")
                    r2, _ = ctx.tr(sub(r[1][1][1][1]), "F")
                    ax = []
                    for k in [k for k in ctx.decls if k.startswith("f_") and "f64___max_FF_F" in k]:
                        u, r1, r2 = (x.replace("(" + k + " ", "(fp.max ") for x in (u, r1, r2))     # f64::max is IEEE maxNum
                    zero = "((_ to_fp 11 53) RNE 0.0)"
                    # the formula is a fixed add/sub/max expression of three floats: it is compared for ALL non-NaN values of a narrower
                    # IEEE format (binary16; the same expression, z3 on all doubles times out): "HALF" marks the query for that rewrite
                    dom = ["(not (fp.isNaN s_u))", "(not (fp.isNaN s_b1))", "(not (fp.isNaN s_b2))"]
                    for n in ("s_u", "s_b1", "s_b2"):
                        ctx.sym(n[2:], "F")
                    queries.append(("ev-regret-formula", "utility = expected value; regret one = max(best one - utility, 0); regret two = max(best two + utility, 0) (rewritten formula: equal for every non-NaN binary16 triple)", ctx,
                                    ax + dom + ["HALF", f"(or (not (= {u} s_u)) (not (fp.eq {r1} (fp.max (fp.sub RNE s_b1 s_u) {zero}))) (not (fp.eq {r2} (fp.max (fp.add RNE s_b2 s_u) {zero}))))"]))
                except Exception as e:  # noqa: BLE001
                    res["infra"].append(f"regret: cannot translate the result: {e}")
        else:
            structural.append(("ev-regret-shape", "regret returns (utility, [regret one, regret two])", False, repr(r)[:200]))

    # ------------------------------------------------------------------ Strategies::get_info (acyclic)
    gkey = [k for k in fns if k.endswith("::get_info")]
    game_f = struct_fields("Game")
    strat_f = struct_fields("Strategies")
    if len(gkey) != 1 or not game_f or not strat_f or "root" not in game_f or "probs" not in strat_f:
        res["infra"].append(f"get_info / struct Game / struct Strategies not as expected: {gkey} {game_f} {strat_f}")
    else:
        ex = mir.Executor(mir.Fn("gi", fns[gkey[0]]), max_visits=2)
        gps = ex.run()
        why = []
        if ex.unknown or len(gps) != 1:
            why.append(f"{len(gps)} paths {sorted(set(ex.unknown))[:2]}")
        else:
            p = gps[0]
            me = ("sym", "gi:_1")
            game = ("field", me, strat_f.index("game"))
            probs = ("field", me, strat_f.index("probs"))

            def rooted_at(t, base):
                while isinstance(t, tuple) and t[0] == "field" and t != base:
                    t = t[1]
                return t == base
            rc = [c for c in p.calls if c[0].startswith("regret::<")]
            if len(rc) != 1:
                why.append(f"{len(rc)} calls of regret")
            else:
                a = rc[0][1]
                if not rooted_at(a[0], ("field", game, game_f.index("root"))):
                    why.append("the tree evaluated is not the game's root")
                if not rooted_at(a[1], ("field", game, game_f.index("chance_infosets"))):
                    why.append("the chance table is not the game's")
                pi = ("field", game, game_f.index("player_infosets"))
                if not (a[2][0] == "tuple" and len(a[2][1]) == 2 and all(rooted_at(a[2][1][k], ("idx", pi, k)) for k in (0, 1))):
                    why.append("the infoset tables are not [player one's, player two's]")
                okp = a[3][0] == "tuple" and len(a[3][1]) == 2
                if okp:
                    for k in (0, 1):
                        t = a[3][1][k]
                        while isinstance(t, tuple) and t[0] == "field":
                            t = t[1]
                        sp = t[2][0] if isinstance(t, tuple) and t[0] == "call" and "collect::<" in t[1] else None
                        if not (sp is not None and sp[0] == "call" and sp[1].startswith("split_by::<f64") and rooted_at(sp[2][0], ("idx", probs, k))
                                and sp[2][1][0] == "call" and "as Iterator>::map::<usize" in sp[2][1][1] and "iter" in sp[2][1][2][0][1] and rooted_at(sp[2][1][2][0][2][0], ("idx", pi, k))):
                            okp = False
                if not okp:
                    why.append("player k's strategy is not player k's probability vector split by the action counts of player k's infosets")
                r = p.env["_0"]
                if not (r[0] == "agg" and r[2].get("util") == ("field", rc[0][2], 0) and r[2].get("regrets") == ("field", rc[0][2], 1)):
                    why.append("the information object does not carry (utility, regrets) as returned by the evaluator")
        structural.append(("ev-getinfo", "Strategies::get_info evaluates the game's own tree and tables with each player's probabilities split by that player's infosets, and keeps the evaluator's (utility, regrets)", not why, "; ".join(why)))

    # ------------------------------------------------------------------ split_by (how a flat probability vector is cut)
    sk = [k for k, v in fns.items() if k.startswith("split::") and k.endswith("::next") and "-> Option<&[T]>" in v.split("\n", 1)[0]]
    sf = struct_fields("SplitsBy", "split.rs")
    if len(sk) != 1 or not sf or set(sf) != {"slice", "lens"}:
        res["infra"].append(f"split::SplitsBy::next not as expected: {sk} {sf}")
    else:
        ex = mir.Executor(mir.Fn("sp", fns[sk[0]]), max_visits=2)
        sps = ex.run()
        why = []
        me = ("sym", "sp:_1")
        I_SL, I_LN = sf.index("slice"), sf.index("lens")
        if ex.unknown or len(sps) != 2:
            why.append(f"{len(sps)} paths {sorted(set(ex.unknown))[:2]}")
        for p in sps:
            (sc, d), = p.cond[:1]
            nxt = ("call", "<I as Iterator>::next", [("field", me, I_LN)])
            if sc != ("discr", nxt):
                why.append("the branch is not on the next length")
                continue
            if d == ("eq", "0"):
                if p.env.get("_0") != ("agg", "None", {}) or p.stores:
                    why.append("without a next length the iterator does not simply end")
            else:
                ln = ("field", ("downcast", nxt, "Some"), 0)
                r = p.env.get("_0")
                sa = r[1][1] if isinstance(r, tuple) and r[0] == "some" and r[1][0] == "field" and r[1][2] == 0 else None
                if not (sa is not None and sa[0] == "call" and sa[1].endswith("::split_at") and sa[2][1] == ln and sa[2][0][0] == "field" and sa[2][0][2] == I_SL):
                    why.append("the slice returned is not the first `len` elements of the remaining vector")
                elif not (len(p.stores) == 1 and p.stores[0][0][0] == "field" and p.stores[0][0][2] == I_SL and p.stores[0][1] == ("field", sa, 1)):
                    why.append("the remaining vector is not advanced to the rest after the returned slice")
        structural.append(("ev-split", "a flat probability vector is cut into consecutive slices: each call returns the first `len` remaining elements and keeps the rest", not why, "; ".join(why)))

    # ------------------------------------------------------------------ discharge
    half = [q for q in queries if "HALF" in q[3]]
    queries = [q for q in queries if "HALF" not in q[3]]
    results = smt.solve_batch(queries, "z3") if queries else {"verdicts": [], "time": 0.0}
    for q in half:
        r_, out_, secs_, txt_ = smt.solve(q[2], [a for a in q[3] if a != "HALF"], "z3", timeout=120, rewrite=lambda t: t.replace("(_ FloatingPoint 11 53)", "(_ FloatingPoint 5 11)").replace("to_fp 11 53", "to_fp 5 11"))
        queries.append(q)
        results["verdicts"].append((r_ if r_ in ("sat", "unsat") else "error", out_[:300], txt_))
        results["time"] += secs_
    res["solver_s"] = results["time"]
    fails = {}
    for (key_, desc, _, _), (rr, out, txt) in zip(queries, results["verdicts"]):
        if rr == "unsat":
            res["obligations"].append(("mirsmt-eval", key_, desc))
        elif rr == "sat":
            fails.setdefault(key_, (desc, out, txt))
        else:
            res["infra"].append(f"solver error on {key_}: {out[:160]}")
    for name, desc, ok, why in structural:
        if ok:
            res["obligations"].append(("mirsmt-eval", name, desc))
        else:
            fails.setdefault(name, (desc, why, ""))
    for k_, (desc, out, txt) in fails.items():
        f = Finding(prop, f"mirsmt:{k_}", f"{desc} -- {' '.join(str(out).split()[:50])}", harness=None, detail={"smt": txt[-2000:]})
        f.native_kind = "c01"
        res["findings"].append(f)
    res["evaluations"] = len(queries) + len(structural)
    res["units"].append({
        "harness": "mirsmt:regret.rs", "role": "regret() and one iteration of each work-list loop of the evaluator from the library's MIR: per-step recurrences of expected value and best-response search",
        "functions": ["regret::regret", "regret::expected (one loop iteration)", "regret::next_infoset_search (one loop iteration)", "regret::optimal_deviations (one iteration of the reach-collection loop)"],
        "bounds": f"{n_paths} complete iteration paths; inner for-loops unrolled <= {UNROLL - 1} children; popped element, accumulator and tables arbitrary; f64 in the FP theory for the skip rule and the clamp",
        "stubs": ["Vec, slice iterators, zip, the infoset tables and trait accessors are uninterpreted"], "assumes": [],
        "verdict": "counterexample" if fails else "holds", "cbmc_checks": len(queries) + len(structural), "obligations_proved": len(res["obligations"]),
        "covers_satisfied": [f"{n_paths} iteration paths", f"obligation kinds: {sorted(set(o[1] for o in res['obligations']))}"],
        "verification_s": round(time.time() - t0, 2),
    })
    res["coverage"] = {"eval_paths": n_paths, "eval_queries": len(queries), "eval_structural": len(structural)}
    return res


if __name__ == "__main__":
    r = run("C01", "quick", open(sys.argv[1]).read() if len(sys.argv) > 1 else None)
    print("findings:", [(f.key, f.what[:300]) for f in r["findings"]])
    print("infra:", r["infra"][:4])
    print("obligations:", sorted(set(o[1] for o in r["obligations"])))
    print("evaluations", r["evaluations"], "solver_s", round(r["solver_s"], 2))
