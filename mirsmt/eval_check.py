"""E2 for the evaluator (src/regret.rs): `regret` (acyclic) and ONE iteration, from an arbitrary state, of
each work-list loop of `expected`, `next_infoset_search` and `optimal_deviations` (first loop), from the
library's MIR. Decides the per-step recurrences of the expected value and of the best-response search:
what a popped terminal / chance / own / opponent node contributes and which (child, weight) pairs it
schedules. That these steps add up to the exact utility and best response over whole trees is an
induction argument and is NOT claimed; the leaves-first resolution loop of `optimal_deviations` is
covered only through its final division and the accumulation of the continuation values."""
import os
import re
import sys
import time

sys.path.insert(0, os.path.dirname(os.path.abspath(__file__)))
sys.path.insert(0, os.path.join(os.path.dirname(os.path.abspath(__file__)), "..", "driver"))
import driver_check  # noqa: E402
import mir  # noqa: E402
import smt  # noqa: E402
from common import Finding, REPO  # noqa: E402


def struct_fields(name):
    """declared field order of a struct of src/lib.rs (MIR shows positions only)"""
    src = open(os.path.join(REPO, "src", "lib.rs")).read()
    m = re.search(r"struct " + name + r"\b[^{;]*\{(.*?)\n\}", src, re.S)
    if not m:
        return None
    return re.findall(r"^\s*(?:pub(?:\([a-z]+\))? )?(\w+):", m.group(1), re.M)


def is_mul(t, a, b):
    if not isinstance(t, tuple):
        return False
    if t[0] == "op" and t[1] == "Mul":
        return (t[2], t[3]) in ((a, b), (b, a))
    if t[0] == "call" and "as Mul<" in t[1] and len(t[2]) == 2:
        return (t[2][0], t[2][1]) in ((a, b), (b, a))
    return False


def strip_iter(t, elem):
    if isinstance(t, tuple) and t[0] == "call" and t[1] == f"core::slice::<impl [{elem}]>::iter":
        return t[2][0]
    return None


class Iter:
    """one iteration of a `while let Some((node, reach)) = queue.pop()` loop"""

    def __init__(self, fns, key, name):
        self.name = name
        self.fn = mir.Fn(name, fns[key])
        pops = [b for b, (_, t, _) in self.fn.blocks.items() if "Vec::<(&Node, f64)>::pop(" in t]
        self.ok = len(pops) == 1
        self.why = "" if self.ok else f"{len(pops)} work-list pops"
        if not self.ok:
            return
        self.pop = pops[0]
        term = self.fn.blocks[self.pop][1]
        self.item_local = re.match(r"(_\d+) = ", term).group(1)
        nxt = re.search(r"return: (bb\d+)", term).group(1)
        ex = mir.Executor(self.fn, stops={self.pop: "continue"}, max_visits=3, max_paths=20000)
        self.paths = ex.run(entry=nxt)
        self.unknown = sorted(set(ex.unknown))
        item = ("field", ("downcast", ("sym", f"{name}:{self.item_local}"), "Some"), 0)
        self.node = ("field", item, 0)
        self.reach = ("field", item, 1)
        self.debug = dict((m.group(1), m.group(2)) for m in re.finditer(r"debug (\w+) => (_\d+);", fns[key]))
        # state before the loop: run from the entry to the first visit of the pop block
        ex0 = mir.Executor(self.fn, stops={self.pop: "head"}, max_visits=2)
        self.pre = [p for p in ex0.run() if p.label == "head"]
        self.fn_text = fns[key]

    def kind(self, p):
        for s, d in p.cond:
            if s == ("discr", self.node) and d[0] == "eq":
                return {"0": "terminal", "1": "chance", "2": "player"}.get(d[1])
        return None

    def elements(self, p):
        """zip elements seen on the path: (prob term, child term, next-call term)"""
        out = []
        for c in p.calls:
            if c[0].startswith("<std::iter::Zip<") and c[0].endswith("as Iterator>::next"):
                r = c[2]
                some = any(s == ("discr", r) and d == ("eq", "1") for s, d in p.cond)
                if some:
                    e = ("field", ("downcast", r, "Some"), 0)
                    out.append((("field", e, 0), ("field", e, 1), r))
        return out

    def zip_sources(self, p):
        for c in p.calls:
            if "as Iterator>::zip::<" in c[0]:
                return strip_iter(c[1][0], "f64"), strip_iter(c[1][1], "Node")
        return None, None

    def pushes(self, p):
        return [c[1][1] for c in p.calls if c[0] == "Vec::<(&Node, f64)>::push"]


def run(prop, tier, mir_text=None):
    t0 = time.time()
    res = {"findings": [], "infra": [], "evaluations": 0, "obligations": [], "solver_s": 0.0, "units": [], "coverage": {}}
    text, err = (mir_text, "") if mir_text is not None else driver_check.dump_lib_mir()
    if text is None:
        res["infra"].append("MIR dump of the library failed: " + err[-300:])
        return res
    fns = mir.split_functions(text)
    for k in ("expected", "optimal_deviations", "next_infoset_search", "regret"):
        if k not in fns:
            res["infra"].append(f"{k} not found in the MIR dump")
            return res
    chance_f = struct_fields("Chance")
    player_f = struct_fields("Player")
    if not chance_f or not player_f or set(chance_f) != {"outcomes", "infoset"} or set(player_f) != {"num", "infoset", "actions"}:
        res["infra"].append(f"struct Chance / Player not as expected: {chance_f} {player_f}")
        return res
    structural, queries = [], []
    n_paths = 0

    def node_parts(it):
        ch = ("field", ("downcast", it.node, "Chance"), 0)
        pl = ("field", ("downcast", it.node, "Player"), 0)
        return {
            "payoff": ("field", ("downcast", it.node, "Terminal"), 0),
            "c_info": ("field", ch, chance_f.index("infoset")), "c_kids": ("field", ch, chance_f.index("outcomes")),
            "p_num": ("field", pl, player_f.index("num")), "p_info": ("field", pl, player_f.index("infoset")), "p_kids": ("field", pl, player_f.index("actions")),
            "player": pl,
        }

    def boxed(t, base):
        """Box<[Node]> is read through its pointer fields: accept any field chain rooted at `base`"""
        while isinstance(t, tuple) and t[0] == "field" and t != base:
            t = t[1]
        return t == base

    def chance_arm(tag, it, p, chance_tables):
        np_ = node_parts(it)
        src_p, src_k = it.zip_sources(p)
        want_p = ("call", "<impl ChanceInfoset as ChanceInfoset>::probs", [("index", chance_tables, np_["c_info"])])
        els = it.elements(p)
        ps_ = it.pushes(p)
        ok = src_p == want_p and boxed(src_k, np_["c_kids"]) and len(ps_) == len(els)
        why = []
        if src_p != want_p:
            why.append("probabilities are not those of the node's chance infoset")
        if not boxed(src_k, np_["c_kids"]):
            why.append("children are not the node's outcomes")
        for (pr, kid, _), pu in zip(els, ps_):
            if not (pu[0] == "tuple" and pu[1][0] == kid and is_mul(pu[1][1], pr, it.reach)):
                ok = False
                why.append(f"an outcome is not scheduled as (its child, its probability x reach): {repr(pu[1][1])[:120]}")
        if len(ps_) != len(els):
            why.append(f"{len(els)} outcomes, {len(ps_)} scheduled")
        structural.append((f"ev-{tag}-chance", "a chance node schedules every outcome with weight probability x reach (probabilities of the node's chance infoset)", ok, "; ".join(why)))

    def weighted_arm(tag, it, p, probs_src_ok, desc):
        """opponent / acting-player arm: every action with positive probability scheduled with probability x reach"""
        np_ = node_parts(it)
        src_p, src_k = it.zip_sources(p)
        els = it.elements(p)
        ps_ = it.pushes(p)
        why = []
        if not probs_src_ok(src_p, np_):
            why.append("probabilities are not the acting player's strategy at the node's infoset")
        if not boxed(src_k, np_["p_kids"]):
            why.append("children are not the node's actions")
        pushed_kids = {}
        for pu in ps_:
            if pu[0] == "tuple":
                pushed_kids[repr(pu[1][0])] = pu[1][1]
        for pr, kid, _ in els:
            w = pushed_kids.get(repr(kid))
            if w is not None and not is_mul(w, pr, it.reach):
                why.append(f"an action is scheduled with a weight other than probability x reach: {repr(w)[:120]}")
        if len(ps_) != len([1 for _, kid, _ in els if repr(kid) in pushed_kids]):
            why.append("something other than the node's actions is scheduled")
        structural.append((f"ev-{tag}", desc, not why, "; ".join(why)))
        # the solver decides which actions may be skipped: exactly those without positive probability
        ctx = smt.Ctx({}, {})
        names = {}
        for pr, _, _ in els:
            names.setdefault(repr(pr), ("sym", "prob%d" % len(names)))
        for v in names.values():
            ctx.sym_sorts[v[1]] = "F"

        def sub(t):
            if isinstance(t, tuple):
                r = names.get(repr(t))
                return r if r is not None else tuple(sub(x) for x in t)
            if isinstance(t, list):
                return [sub(x) for x in t]
            if isinstance(t, dict):
                return {k: sub(v) for k, v in t.items()}
            return t
        conds = []
        for s_, d_ in p.cond:
            try:
                conds.append(ctx.cond(sub(s_), d_))
            except Exception as e:  # noqa: BLE001
                res["infra"].append(f"{it.name}: cannot translate a branch condition: {e}")
        axioms = []
        for k in list(ctx.decls):
            if k.startswith("f_") and "PartialOrd___gt_FF_B" in k:
                axioms.append(f"(forall ((x {smt.FP}) (y {smt.FP})) (= ({k} x y) (fp.gt x y)))")
            if k.startswith("f_") and "PartialOrd___ge_FF_B" in k:
                axioms.append(f"(forall ((x {smt.FP}) (y {smt.FP})) (= ({k} x y) (fp.geq x y)))")
        for pr, kid, _ in els:
            x, _ = ctx.tr(sub(pr), "F")
            pos = f"(fp.gt {x} ((_ to_fp 11 53) RNE 0.0))"
            if repr(kid) in pushed_kids:
                pass    # scheduling a zero-probability action adds 0 x value: harmless, not constrained
            else:
                queries.append((f"ev-{tag}-skip", "an action is left out only if its probability is not positive (every f64)", ctx, axioms + conds + [pos]))

    # ------------------------------------------------------------------ expected
    it = Iter(fns, "expected", "expected")
    if not it.ok or it.unknown:
        res["infra"].append(f"expected: {it.why} {it.unknown[:3]}")
    else:
        acc = it.debug.get("expected")
        for p in it.paths:
            n_paths += 1
            if p.label == "return":
                structural.append(("ev-exp-return", "when the work list is empty the accumulated sum is returned", p.env.get("_0") == ("sym", f"expected:{acc}") or p.env.get("_0") == p.env.get(acc), repr(p.env.get("_0"))[:120]))
                continue
            k = it.kind(p)
            np_ = node_parts(it)
            if k == "terminal":
                a0 = ("sym", f"expected:{acc}")
                v = p.env.get(acc)
                ok = isinstance(v, tuple) and v[0] == "op" and v[1] == "Add" and ((v[2] == a0 and is_mul(v[3], it.reach, np_["payoff"])) or (v[3] == a0 and is_mul(v[2], it.reach, np_["payoff"])))
                structural.append(("ev-exp-terminal", "a terminal node adds reach x payoff to the expected value", ok and not it.pushes(p), repr(v)[:200]))
            elif k == "chance":
                chance_arm("exp", it, p, ("sym", "expected:_2"))
            elif k == "player":
                def src_ok(src, np2):
                    return src == ("call", "<impl AsRef<[f64]> as AsRef<[f64]>>::as_ref", [("index", ("call", "PlayerNum::ind::<&[impl AsRef<[f64]>]>", [np2["p_num"], ("sym", "expected:_3")]), np2["p_info"])])
                weighted_arm("exp-player", it, p, src_ok, "a decision node schedules its actions with weight (acting player's probability) x reach, from THAT player's strategy at the node's infoset")
            else:
                structural.append(("ev-exp-kinds", "every popped node is a terminal, chance or decision node", False, str(p.cond[:2])[:200]))
        pre_ok = len(it.pre) == 1 and it.pre[0].env.get(acc) == ("const", "0f64") and "('const', '1f64')" in repr(it.pre[0].env) and "expected:_1" in repr(it.pre[0].env)
        structural.append(("ev-exp-init", "the sum starts at 0 with the root scheduled at reach 1", pre_ok, f"{len(it.pre)} paths to the loop head"))

    # ------------------------------------------------------------------ next_infoset_search
    it = Iter(fns, "next_infoset_search", "nis")
    if not it.ok or it.unknown:
        res["infra"].append(f"next_infoset_search: {it.why} {it.unknown[:3]}")
    else:
        acc = it.debug.get("res")
        P1 = ("const", "PLAYER_ONE")

        def side(p, np2):
            """(node's player is player one?, evaluating for player one?) from the branch decisions"""
            num_one, p1 = None, None
            for s, d in p.cond:
                if s == P1 or (s[0] == "field" and s[1][0] == "tuple" and s[2] == 1 and s[1][1][1] == P1):
                    p1 = (d != ("eq", "0")) if d[0] == "eq" else True
                if s[0] == "discr" and s[1][0] == "field" and s[1][1][0] == "tuple" and s[1][2] == 0 and s[1][1][1][0] == np2["p_num"] and d[0] == "eq":
                    num_one = d[1] == "0"
            return num_one, p1
        for p in it.paths:
            n_paths += 1
            if p.label == "return":
                structural.append(("ev-nis-return", "when the work list is empty the accumulated value is returned", p.env.get("_0") in (("sym", f"nis:{acc}"), p.env.get(acc)), repr(p.env.get("_0"))[:120]))
                continue
            k = it.kind(p)
            np_ = node_parts(it)
            a0 = ("sym", f"nis:{acc}")
            v = p.env.get(acc)
            if k == "terminal":
                p1 = next(((d != ("eq", "0")) for s, d in p.cond if s == P1), None)
                want = "Add" if p1 else "Sub"
                ok = p1 is not None and isinstance(v, tuple) and v[0] == "op" and v[1] == want and v[2] == a0 and is_mul(v[3], it.reach, np_["payoff"]) and not it.pushes(p)
                structural.append(("ev-nis-terminal", "a terminal node adds reach x payoff in the deviating player's own utility (payoff for player one, its negation for player two)", ok, f"for player one: {p1}; {repr(v)[:160]}"))
            elif k == "chance":
                chance_arm("nis", it, p, ("sym", "nis:_4"))
            elif k == "player":
                num_one, p1 = side(p, np_)
                if num_one is None or p1 is None:
                    structural.append(("ev-nis-sides", "own and opponent nodes are told apart by (node's player, evaluated player)", False, str([(repr(s)[:60], d) for s, d in p.cond][:5])))
                    continue
                if num_one == p1:
                    mu = None
                    ok = isinstance(v, tuple) and v[0] == "op" and v[1] == "Add" and v[2] == a0 and not it.pushes(p)
                    if ok:
                        w = v[3]
                        info = ("index", ("sym", "nis:_3"), np_["p_info"])
                        ok = any(is_mul(w, ("field", info, fi), it.reach) for fi in range(3))
                        mu = repr(w)[:160]
                    structural.append(("ev-nis-own", "an own decision node contributes reach x (the value already resolved for ITS infoset) and is not descended into", ok, str(mu)))
                else:
                    def src_ok(src, np2):
                        return src == ("call", "<impl AsRef<[f64]> as AsRef<[f64]>>::as_ref", [("index", ("sym", "nis:_5"), np2["p_info"])])
                    weighted_arm("nis-opponent", it, p, src_ok, "an opponent node schedules its actions with weight (opponent's probability at the node's infoset) x reach")
        pre_ok = len(it.pre) == 1 and it.pre[0].env.get(acc) == ("const", "0f64") and any(c[0] == "Vec::<(&Node, f64)>::push" and c[1][1] == ("tuple", [("sym", "nis:_1"), ("const", "1f64")]) for c in it.pre[0].calls)
        structural.append(("ev-nis-init", "the value starts at 0 with the start node scheduled at reach 1", pre_ok, f"{len(it.pre)} paths to the loop head"))

    # ------------------------------------------------------------------ optimal_deviations, first loop
    it = Iter(fns, "optimal_deviations", "od")
    if not it.ok or it.unknown:
        res["infra"].append(f"optimal_deviations: {it.why} {it.unknown[:3]}")
    else:
        P1 = ("const", "PLAYER_ONE")
        for p in it.paths:
            if p.label != "continue":
                continue
            n_paths += 1
            k = it.kind(p)
            np_ = node_parts(it)
            if k == "terminal":
                structural.append(("ev-od-terminal", "a terminal node schedules nothing while reach is collected", not it.pushes(p), ""))
            elif k == "chance":
                chance_arm("od", it, p, ("sym", "od:_2"))
            elif k == "player":
                num_one, p1 = None, None
                for s, d in p.cond:
                    if s[0] == "field" and s[1][0] == "tuple" and s[2] == 1 and s[1][1][1] == P1:
                        p1 = (d != ("eq", "0")) if d[0] == "eq" else True
                    if s[0] == "discr" and s[1][0] == "field" and s[1][1][0] == "tuple" and s[1][2] == 0 and s[1][1][1][0] == np_["p_num"] and d[0] == "eq":
                        num_one = d[1] == "0"
                if num_one is None or p1 is None:
                    structural.append(("ev-od-sides", "own and opponent nodes are told apart by (node's player, evaluated player)", False, str([(repr(s)[:60], d) for s, d in p.cond][:5])))
                    continue
                if num_one == p1:
                    why = []
                    rec = [c for c in p.calls if c[0].startswith("Vec::<(&Player, f64)>::push")]
                    if not (len(rec) == 1 and rec[0][1][1] == ("tuple", [np_["player"], it.reach]) and "od:_5" in repr(rec[0][1][0]) and repr(np_["p_info"]) in repr(rec[0][1][0])):
                        why.append("the node is not recorded with its reach under ITS infoset")
                    kids = [c for c in p.calls if c[0].endswith("as Iterator>::next") and "Iter<'_, Node>" in c[0] and "Zip" not in c[0]]
                    some = [c for c in kids if any(s == ("discr", c[2]) and d == ("eq", "1") for s, d in p.cond)]
                    ps_ = it.pushes(p)
                    if len(ps_) != len(some) or any(not (pu[0] == "tuple" and pu[1][1] == it.reach and pu[1][0] == ("field", ("downcast", c[2], "Some"), 0)) for pu, c in zip(ps_, some)):
                        why.append("not every action's child is scheduled with the unchanged reach")
                    prevs = [c for c in p.calls if "PlayerInfoset>::prev_infoset" in c[0]]
                    if not (len(prevs) == 1 and prevs[0][1] == [("index", ("sym", "od:_3"), np_["p_info"])]):
                        why.append("the previous infoset looked up is not that of the node's infoset")
                    else:
                        has_prev = any(s == ("discr", prevs[0][2]) and d == ("eq", "1") for s, d in p.cond)
                        incs = [x for x in p.stores if isinstance(x[1], tuple) and x[1][0] == "op" and x[1][1] in ("Add", "AddWithOverflow") and x[1][3] == ("const", "1_usize")]
                        fut = [x for x in p.env.values() if isinstance(x, tuple) and x[0] == "op" and x[1] in ("Add", "AddWithOverflow") and len(x) > 3 and x[3] == ("const", "1_usize")]
                        if has_prev and not (incs or fut):
                            why.append("the pending-node count of the previous infoset is not incremented")
                        if not has_prev and incs:
                            why.append("a pending-node count is incremented without a previous infoset")
                    structural.append(("ev-od-own", "an own decision node is recorded (node, reach) under its infoset, counts as pending for its previous infoset, and all its children are scheduled with the same reach", not why, "; ".join(why)))
                else:
                    def src_ok(src, np2):
                        return src == ("call", "<impl AsRef<[f64]> as AsRef<[f64]>>::as_ref", [("index", ("sym", "od:_4"), np2["p_info"])])
                    weighted_arm("od-opponent", it, p, src_ok, "an opponent node schedules its actions with weight (opponent's probability at the node's infoset) x reach")

    # ------------------------------------------------------------------ regret (acyclic)
    fn = mir.Fn("regret", fns["regret"])
    ex = mir.Executor(fn)
    ps = ex.run()
    if ex.unknown or len(ps) != 1:
        res["infra"].append(f"regret: {sorted(set(ex.unknown))[:3]} / {len(ps)} paths")
    else:
        p = ps[0]
        r = p.env["_0"]
        A = [("sym", f"regret:_{i}") for i in range(5)]
        e_call = next((c for c in p.calls if c[0].startswith("expected::<")), None)
        one = next((c for c in p.calls if c[0].startswith("optimal_deviations::<true")), None)
        two = next((c for c in p.calls if c[0].startswith("optimal_deviations::<false")), None)
        ok_args = (e_call is not None and e_call[1] == [A[1], A[2], A[4]] and one is not None and one[1] == [A[1], A[2], ("idx", A[3], 0), ("idx", A[4], 1)]
                   and two is not None and two[1] == [A[1], A[2], ("idx", A[3], 1), ("idx", A[4], 0)])
        structural.append(("ev-regret-tables", "each player's best response is searched over THAT player's infosets against the OTHER player's strategy, from the same root", ok_args,
                           f"{[repr(c[1])[:160] for c in (one, two) if c]}"))
        if ok_args and r[0] == "tuple" and len(r[1]) == 2 and r[1][1][0] == "tuple":
            ctx = smt.Ctx({}, {})
            ctx.RET = dict(ctx.RET)
            ctx.RET.update({"expected::<impl ChanceInfoset, impl AsRef<[f64]>>": "F"})
            names = {repr(e_call[2]): ("sym", "u"), repr(one[2]): ("sym", "b1"), repr(two[2]): ("sym", "b2")}
            for v in names.values():
                ctx.sym_sorts[v[1]] = "F"

            def sub(t):
                if isinstance(t, tuple):
                    rr = names.get(repr(t))
                    return rr if rr is not None else tuple(sub(x) for x in t)
                if isinstance(t, list):
                    return [sub(x) for x in t]
                return t
            try:
                u, _ = ctx.tr(sub(r[1][0]), "F")
                r1, _ = ctx.tr(sub(r[1][1][1][0]), "F")
                r2, _ = ctx.tr(sub(r[1][1][1][1]), "F")
                ax = [f"(forall ((x {smt.FP}) (y {smt.FP})) (= ({k} x y) (fp.max x y)))" for k in ctx.decls if k.startswith("f_") and "f64___max_FF_F" in k]
                zero = "((_ to_fp 11 53) RNE 0.0)"
                dom = ["(not (fp.isNaN s_u))", "(not (fp.isNaN s_b1))", "(not (fp.isNaN s_b2))"]
                queries.append(("ev-regret-utility", "the reported utility is the expected value", ctx, ax + [f"(not (= {u} s_u))"]))
                queries.append(("ev-regret-one", "player one's regret = max(best response value - utility, 0) (every non-NaN pair)", ctx, ax + dom + [f"(not (fp.eq {r1} (fp.max (fp.sub RNE s_b1 s_u) {zero})))"]))
                queries.append(("ev-regret-two", "player two's regret = max(best response value (own utility) + utility, 0) (every non-NaN pair)", ctx, ax + dom + [f"(not (fp.eq {r2} (fp.max (fp.add RNE s_b2 s_u) {zero})))"]))
            except Exception as e:  # noqa: BLE001
                res["infra"].append(f"regret: cannot translate the result: {e}")
        else:
            structural.append(("ev-regret-shape", "regret returns (utility, [regret one, regret two])", False, repr(r)[:200]))

    # ------------------------------------------------------------------ discharge
    results = smt.solve_batch(queries, "z3") if queries else {"verdicts": [], "time": 0.0}
    res["solver_s"] = results["time"]
    fails = {}
    for (key_, desc, _, _), (rr, out, txt) in zip(queries, results["verdicts"]):
        if rr == "unsat":
            res["obligations"].append(("mirsmt-eval", key_, desc))
        elif rr == "sat":
            fails.setdefault(key_, (desc, out, txt))
        else:
            res["infra"].append(f"solver error on {key_}: {out[:160]}")
    for name, desc, ok, why in structural:
        if ok:
            res["obligations"].append(("mirsmt-eval", name, desc))
        else:
            fails.setdefault(name, (desc, why, ""))
    for k_, (desc, out, txt) in fails.items():
        f = Finding(prop, f"mirsmt:{k_}", f"{desc} -- {' '.join(str(out).split()[:50])}", harness=None, detail={"smt": txt[-2000:]})
        f.native_kind = "c01"
        res["findings"].append(f)
    res["evaluations"] = len(queries) + len(structural)
    res["units"].append({
        "harness": "mirsmt:regret.rs", "role": "regret() and one iteration of each work-list loop of the evaluator from the library's MIR: per-step recurrences of expected value and best-response search",
        "functions": ["regret::regret", "regret::expected (one loop iteration)", "regret::next_infoset_search (one loop iteration)", "regret::optimal_deviations (one iteration of the reach-collection loop)"],
        "bounds": f"{n_paths} complete iteration paths; inner for-loops unrolled <= 2 children; popped element, accumulator and tables arbitrary; f64 in the FP theory for the skip rule and the clamp",
        "stubs": ["Vec, slice iterators, zip, the infoset tables and trait accessors are uninterpreted"], "assumes": [],
        "verdict": "counterexample" if fails else "holds", "cbmc_checks": len(queries) + len(structural), "obligations_proved": len(res["obligations"]),
        "covers_satisfied": [f"{n_paths} iteration paths", f"obligation kinds: {sorted(set(o[1] for o in res['obligations']))}"],
        "verification_s": round(time.time() - t0, 2),
    })
    res["coverage"] = {"eval_paths": n_paths, "eval_queries": len(queries), "eval_structural": len(structural)}
    return res


if __name__ == "__main__":
    r = run("C01", "quick", open(sys.argv[1]).read() if len(sys.argv) > 1 else None)
    print("findings:", [(f.key, f.what[:300]) for f in r["findings"]])
    print("infra:", r["infra"][:4])
    print("obligations:", sorted(set(o[1] for o in r["obligations"])))
    print("evaluations", r["evaluations"], "solver_s", round(r["solver_s"], 2))
