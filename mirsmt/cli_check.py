"""E2: symbolic execution of the MIR of the CLI's `main` (acyclic) and `Discount::into_params`,
library calls uninterpreted, floats in the FP theory; every path's observations are compared with
the specification (help text / documented output meaning) by z3, cross-checked by cvc5.
Returns the dict the driver expects from a `part`."""
import json
import os
import re
import shutil
import subprocess
import sys
import time

sys.path.insert(0, os.path.dirname(os.path.abspath(__file__)))
sys.path.insert(0, os.path.join(os.path.dirname(os.path.abspath(__file__)), "..", "driver"))
import mir  # noqa: E402
import smt  # noqa: E402
from common import REPO, WORK, Finding, env_offline  # noqa: E402

MIRDIR = os.path.join(WORK, "mir")


def dump_mir():
    os.makedirs(MIRDIR, exist_ok=True)
    import fcntl
    lock = open(os.path.join(MIRDIR, "main.lock"), "w")
    fcntl.flock(lock, fcntl.LOCK_EX)   # C15, C16 and C17 may ask for the dump at the same time
    tgt = os.path.join(MIRDIR, "target")
    fp = os.path.join(tgt, "debug", ".fingerprint")
    if os.path.isdir(fp):
        for d in os.listdir(fp):
            if d.startswith("cfr-"):
                shutil.rmtree(os.path.join(fp, d), ignore_errors=True)
    cmd = ["cargo", "+nightly", "rustc", "--offline", "--manifest-path", f"{REPO}/Cargo.toml", "--bin", "cfr", "--target-dir", tgt,
           "--", "-Zunpretty=mir", "-C", "debug-assertions=off", "-C", "overflow-checks=on"]
    p = subprocess.run(cmd, cwd=REPO, env=env_offline(), capture_output=True, text=True)
    out = os.path.join(MIRDIR, "main.mir")
    open(out, "w").write(p.stdout)
    if "fn main()" not in p.stdout:
        return None, (p.stderr or "")[-1500:]
    return p.stdout, ""


def parse_source():
    src = open(f"{REPO}/src/main.rs").read()
    lib = open(f"{REPO}/src/lib.rs").read()
    m = re.search(r"struct Args \{(.*?)\n\}", src, re.S)
    fields = []
    for fm in re.finditer(r"^\s*(\w+): ([\w:<>]+),\s*$", m.group(1), re.M):
        fields.append((fm.group(1), fm.group(2)))
    enums = {}
    for text in (src, lib):
        for em in re.finditer(r"enum (\w+) \{(.*?)\n\}", text, re.S):
            vs = re.findall(r"^\s*(\w+),?\s*$", re.sub(r"///.*|//.*", "", em.group(2)), re.M)
            if vs:
                enums[em.group(1)] = vs
    return dict(enumerate(fields)), enums


def promoted(mir_text):
    out = {}
    for m in re.finditer(r"^const main::promoted\[(\d+)\].*?\{\n(.*?)^\}", mir_text, re.M | re.S):
        s = re.search(r'const "([^"]*)"', m.group(2))
        out[int(m.group(1))] = s.group(1) if s else None
    for m in re.finditer(r"^promoted\[(\d+)\] in main.*?\{\n(.*?)^\}", mir_text, re.M | re.S):
        s = re.search(r'const "([^"]*)"', m.group(2))
        out[int(m.group(1))] = s.group(1) if s else None
    return out


ARGS = ("call", "<Args as Parser>::parse", [])


def fld(idx_by_name, name):
    return ("field", ARGS, idx_by_name[name])


def find_calls(path, pat):
    return [c for c in path.calls if re.search(pat, c[0])]


def run(prop, tier):
    t0 = time.time()
    res = {"findings": [], "infra": [], "evaluations": 0, "obligations": [], "solver_s": 0.0, "units": [], "coverage": {}}
    text, err = dump_mir()
    if text is None:
        res["infra"].append("MIR dump of the cfr binary failed: " + err[-400:])
        return res
    fns = mir.split_functions(text)
    if "main" not in fns:
        res["infra"].append("fn main not found in MIR dump")
        return res
    args_fields, enums = parse_source()
    idx = {n: i for i, (n, _) in args_fields.items()}
    prom = promoted(text)
    fmain = mir.Fn("main", fns["main"])
    ex = mir.Executor(fmain)
    paths = ex.run()
    if ex.unknown:
        res["infra"].append("MIR constructs the encoder does not know: " + "; ".join(sorted(set(ex.unknown))[:6]))
        return res
    if len(paths) < 8:
        res["infra"].append(f"only {len(paths)} complete paths through main (expected >= 8)")
        return res

    into_key = next((k for k in fns if k.endswith("::into_params") or "into_params" in k), None)
    queries = []   # (key, description, ctx, assertions)

    def q(key, desc, ctx, pathcond, negated_goal):
        queries.append((key, desc, ctx, pathcond + [negated_goal]))

    n_out = 0
    for pi, p in enumerate(paths):
        ctx = smt.Ctx(args_fields, enums)
        try:
            pc = [ctx.cond(s, d) for s, d in p.cond]
        except Exception as e:  # noqa: BLE001
            res["infra"].append(f"path {pi}: cannot translate a branch condition: {e}")
            continue
        queries.append(("path-feasible", "vacuity guard: the path condition itself is satisfiable", ctx, pc + ["true"]))
        solve_calls = find_calls(p, r"Game::<.*>::solve$|Game::<.*>::solve\b")
        if len(solve_calls) != 1:
            res["infra"].append(f"path {pi}: expected exactly one call of Game::solve, found {len(solve_calls)}")
            continue
        sargs = solve_calls[0][1]
        want = {
            1: ("C16", "method", ("discr", fld(idx, "method")), "solve is called with the library method of the same name as -m"),
            3: ("C16", "max_regret", fld(idx, "max_regret"), "solve is called with the -r threshold"),
            4: ("C16", "parallel", fld(idx, "parallel"), "solve is called with the -p thread count"),
            5: ("C16", "discount", ("some", ("call", "Discount::into_params", [fld(idx, "discount")])), "solve is called with Some(preset selected by -d)"),
        }
        for pos, (pr, key, exp, desc) in want.items():
            if prop != pr:
                continue
            a, sa = ctx.tr(sargs[pos])
            b, sb = ctx.tr(exp, sa)
            q(f"solve-arg-{key}", desc, ctx, pc, f"(not (= {a} {b}))")
        if prop == "C16":
            a, _ = ctx.tr(sargs[2])
            mi, _ = ctx.tr(fld(idx, "max_iters"))
            q("solve-arg-max_iters", "solve is called with -t, 0 meaning unlimited (u64::MAX)", ctx, pc,
              f"(not (= {a} (ite (= {mi} 0) 18446744073709551615 {mi})))")
            # input route / format selection
            readers = find_calls(p, r"(json|gambit|auto)::from_reader")
            if len(readers) != 1:
                res["infra"].append(f"path {pi}: expected exactly one reader call, found {len(readers)}")
                continue
            rid = {"json": 0, "gambit": 1, "auto": 2}[re.search(r"(json|gambit|auto)::from_reader", readers[0][0]).group(1)]
            eqs = find_calls(p, r"PartialEq<&str>>::eq")
            inp_eq = next((c for c in eqs if c[1][0] == fld(idx, "input")), None)
            if inp_eq is None or prom.get(int(re.search(r"promoted\[(\d+)\]", inp_eq[1][1][1]).group(1))) != "-":
                res["infra"].append(f"path {pi}: could not identify the comparison of --input with \"-\"")
                continue
            is_stdin, _ = ctx.tr(inp_eq[2], "Bool")
            fmtv, _ = ctx.tr(("discr", fld(idx, "input_format")))
            F = enums["InputFormat"]
            ends = {}
            for c in find_calls(p, r"ends_with"):
                lit = re.search(r'"([^"]*)"', c[1][1][1]).group(1)
                ends[lit], _ = ctx.tr(c[2], "Bool")
            ej = ends.get(".json", "false")
            eg = ends.get(".efg", "false")
            J, G, A = F.index("Json"), F.index("Gambit"), F.index("Auto")
            spec = (f"(ite (= {fmtv} {J}) 0 (ite (= {fmtv} {G}) 1 (ite {is_stdin} 2 (ite {ej} 0 (ite {eg} 1 2)))))")
            q("input-format", "parser chosen by --input-format, then by the .json/.efg extension of a file, else auto-detection", ctx, pc, f"(not (= {rid} {spec}))")
            # stream handed to the parser: stdin iff --input is "-", otherwise the opened --input file
            stream = readers[0][1][0]
            stream_txt = repr(stream)
            uses_stdin = "stdin" in stream_txt or "Stdin::lock" in stream_txt
            uses_file = "File::open" in stream_txt and repr(fld(idx, "input")) in stream_txt
            q("input-route", "stdin is read iff --input is \"-\", otherwise the file named by --input", ctx, pc,
              "(not " + (is_stdin if uses_stdin and not uses_file else (f"(not {is_stdin})" if uses_file else "false")) + ")")

        # ---- clip step and output assembly
        s0 = ("field", ("call", "Result::<(Strategies<'_, std::string::String, std::string::String>, RegretBound), SolveError>::unwrap", [solve_calls[0][2]]), 0)
        trunc = find_calls(p, r"Strategies::<.*>::truncate")
        named = find_calls(p, r"as_named")
        outs = []
        for v in p.env.values():
            if isinstance(v, tuple) and v[0] == "agg" and v[1].endswith("Output") and v not in outs:
                outs.append(v)
        writers = find_calls(p, r"to_writer")
        if len(trunc) != 1 or len(named) != 1 or len(outs) != 1 or len(writers) != 1:
            res["infra"].append(f"path {pi}: clip/output structure not recognised (truncate {len(trunc)}, as_named {len(named)}, Output {len(outs)}, to_writer {len(writers)})")
            continue
        n_out += 1
        out = outs[0][2]
        clone0 = ("call", "<Strategies<'_, std::string::String, std::string::String> as Clone>::clone", [s0])
        thr = fld(idx, "clip_threshold")
        T = ("mut", trunc[0][0], clone0, [clone0, thr])
        gi = next(c[0] for c in p.calls if c[0].endswith("get_info"))
        info0 = ("call", gi, [s0])
        infoT = ("call", gi, [T])
        reg = next(c[0] for c in p.calls if c[0].endswith("StrategiesInfo::regret"))
        c_txt, _ = ctx.tr(("op", "Lt", ("call", reg, [infoT]), ("call", reg, [info0])))
        s0_t, _ = ctx.tr(s0)
        T_t, _ = ctx.tr(T)
        i0_t, _ = ctx.tr(info0)
        iT_t, _ = ctx.tr(infoT)
        S_spec = f"(ite {c_txt} {T_t} {s0_t})"
        I_spec = f"(ite {c_txt} {iT_t} {i0_t})"
        if prop == "C16":
            a, _ = ctx.tr(trunc[0][1][0])
            b, _ = ctx.tr(clone0)
            q("clip-target", "the clip threshold is applied to a copy of the solver's profile", ctx, pc, f"(not (= {a} {b}))")
            a, _ = ctx.tr(trunc[0][1][1])
            b, _ = ctx.tr(thr)
            q("clip-threshold", "truncate is called with --clip-threshold", ctx, pc, f"(not (= {a} {b}))")
            a, _ = ctx.tr(named[0][1][0])
            q("clip-choice", "the pruned profile is printed exactly when its regret is strictly lower (any f64 pair incl. NaN)", ctx, pc, f"(not (= {a} {S_spec}))")
            w, _ = ctx.tr(writers[0][1][1])
            o, _ = ctx.tr(outs[0])
            q("output-destination", "the same object is serialised whatever the destination", ctx, pc, f"(not (= {w} {o}))")
            outeq = next((c for c in find_calls(p, r"PartialEq<&str>>::eq") if c[1][0] == fld(idx, "output")), None)
            if outeq is not None:
                is_stdout, _ = ctx.tr(outeq[2], "Bool")
                dst = repr(writers[0][1][0])
                to_stdout = "stdout" in dst
                to_file = "File::create" in dst
                q("output-route", "stdout is written iff --output is \"-\", otherwise the file named by --output", ctx, pc,
                  "(not " + (is_stdout if to_stdout else (f"(not {is_stdout})" if to_file else "false")) + ")")
        if prop == "C15":
            pu = next(c[0] for c in p.calls if c[0].endswith("player_utility"))
            pr_ = next(c[0] for c in p.calls if c[0].endswith("player_regret"))
            one = ("variant", "PlayerNum", "One")
            two = ("variant", "PlayerNum", "Two")
            summ = ("field", next(c[2] for c in p.calls if "from_reader" in c[0]), 1)
            a, _ = ctx.tr(named[0][1][0])
            q("printed-profile", "the printed strategies are those of the profile chosen by the clip step", ctx, pc, f"(not (= {a} {S_spec}))")

            def uf_on_spec(fname, extra=None):
                f = ctx.uf(smt.short(fname), ["V"] + (["Int"] if extra is not None else []), "F")
                e = "" if extra is None else " " + ctx.tr(extra)[0]
                return f"({f} {I_spec}{e})"
            sum_t, _ = ctx.tr(summ, "F")
            checks = [
                ("regret", uf_on_spec(reg), "printed regret is the total regret of the printed profile"),
                ("player_one_regret", uf_on_spec(pr_, one), "printed player-one regret is that of the printed profile"),
                ("player_two_regret", uf_on_spec(pr_, two), "printed player-two regret is that of the printed profile"),
                ("player_one_utility", f"(fp.add RNE {uf_on_spec(pu, one)} {sum_t})", "player one's utility in the file's own payoffs: library utility + constant-sum offset"),
                ("player_two_utility", f"(fp.add RNE {uf_on_spec(pu, two)} {sum_t})", "player two's utility in the file's own payoffs: library utility (= -u1) + constant-sum offset, so the two add up to the constant"),
            ]
            for name, spec, desc in checks:
                a, sa = ctx.tr(out[name], "F")
                q("output-" + name, desc, ctx, pc, f"(not (= {a} {spec}))")
            for i, name in ((0, "player_one_strategy"), (1, "player_two_strategy")):
                a, _ = ctx.tr(out[name])
                conv = next(c for c in p.calls if "Into<Strategy>>::into" in c[0])
                exp = ("call", conv[0], [("idx", ("call", named[0][0], [("sym", "SPEC")]), i)])
                f = ctx.uf(smt.short(conv[0]), ["V"], "V")
                g = ctx.uf("idx%d" % i, ["V"], "V")
                h = ctx.uf(smt.short(named[0][0]), ["V"], "V")
                q("output-" + name, f"strategy {i + 1} printed is the named view of player {i + 1} of the chosen profile", ctx, pc, f"(not (= {a} ({f} ({g} ({h} {S_spec})))))")

    # into_params table
    if prop == "C16" and into_key:
        fin = mir.Fn("into_params", fns[into_key])
        ex2 = mir.Executor(fin)
        p2 = ex2.run()
        D = enums.get("Discount", [])
        expect = {"Vanilla": "vanilla", "Lcfr": "lcfr", "CfrPlus": "cfr_plus", "Dcfr": "dcfr", "DcfrPrune": "dcfr_prune"}
        for p in p2:
            ctx = smt.Ctx(args_fields, enums)
            ctx.decls["s_d"] = "(declare-const s_d Int)"
            conds = []
            for s, d in p.cond:
                if d[0] == "eq":
                    conds.append(f"(= s_d {d[1]})")
                else:
                    conds.append("(and " + " ".join(f"(not (= s_d {k}))" for k in d[1]) + " true)")
            calls = [c for c in p.calls if "RegretParams::" in c[0]]
            if len(calls) != 1:
                res["infra"].append("into_params: path without exactly one preset constructor call")
                continue
            got = calls[0][0].split("::")[-1]
            code = {v: i for i, v in enumerate(expect.values())}
            spec = "(- 1)"
            for i, v in reversed(list(enumerate(D))):
                spec = f"(ite (= s_d {i}) {code.get(expect.get(v), -1) if code.get(expect.get(v)) is not None else '(- 1)'} {spec})"
            queries.append(("preset-table", "-d selects the constructor of the same name", ctx, conds + [f"(>= s_d 0) (< s_d {len(D)})".replace(") (", ") (")] and conds + [f"(and (>= s_d 0) (< s_d {len(D)}))", f"(not (= {code.get(got, -2)} {spec}))"]))
    # names of CLI methods must be the library's, in the same order (the table above compares indices)
    if prop == "C16" and enums.get("Method") != enums.get("SolveMethod"):
        res["infra"].append("Method and SolveMethod variant lists differ; index comparison is not meaningful")

    # ---- discharge
    stats = {"unsat": 0, "sat": 0, "error": 0}
    seen_fail = {}
    cvc5_checked = 0
    solver_time = 0.0
    samples = []
    results = smt.solve_batch(queries, "z3")
    solver_time += results["time"]
    # cross-check a sample of paths with cvc5 (short limit: cvc5 1.0 is slow on fp.add over UF terms;
    # a timeout is "not cross-checked", only a definite sat/unsat mismatch is a disagreement)
    ctx_ids = []
    for qd in queries:
        if id(qd[2]) not in ctx_ids:
            ctx_ids.append(id(qd[2]))
    sample_ctx = set(ctx_ids[:: max(1, len(ctx_ids) // 6)][:6])
    sample_idx = [i for i, qd in enumerate(queries) if id(qd[2]) in sample_ctx]
    cv = smt.solve_batch([queries[i] for i in sample_idx], "cvc5", timeout=15)
    solver_time += cv["time"]
    cvc5_checked = 0
    for i, r2 in zip(sample_idx, cv["verdicts"]):
        r1 = results["verdicts"][i]
        if r2[0] in ("sat", "unsat"):
            cvc5_checked += 1
            if r1[0] != r2[0]:
                res["infra"].append(f"solvers disagree on {queries[i][0]}: z3 {r1[0]}, cvc5 {r2[0]}")
    infeasible_ctx = set()
    for (key, desc, ctx, asserts), (r, out, text) in zip(queries, results["verdicts"]):
        if key == "path-feasible" and r != "sat":
            infeasible_ctx.add(id(ctx))
            res["infra"].append("a complete MIR path has an unsatisfiable condition (encoder defect): every query on it would be vacuous")
    for (key, desc, ctx, asserts), (r, out, text) in zip(queries, results["verdicts"]):
        if key == "path-feasible" or id(ctx) in infeasible_ctx:
            continue
        stats[r if r in stats else "error"] += 1
        if r == "unsat":
            res["obligations"].append(("mirsmt", key, desc))
            if len(samples) < 6 and key not in [s["query"] for s in samples]:
                samples.append({"query": key, "meaning": desc, "smt_size_bytes": len(text), "verdict": "unsat (holds on this path for all values)"})
        elif r == "sat":
            if key not in seen_fail:
                seen_fail[key] = (desc, out, text)
        else:
            res["infra"].append(f"solver error on {key}: {out[:200]}")
    for key, (desc, out, text) in seen_fail.items():
        f = Finding(prop, f"mirsmt:{key}", f"{desc} -- z3 model: " + " ".join(out.split()[:60]), harness=None, detail={"smt": text[-3000:]})
        f.native_kind = "cli"
        res["findings"].append(f)
    res["evaluations"] = len(queries)
    res["solver_s"] = solver_time
    res["units"].append({
        "harness": "mirsmt:main", "role": "symbolic execution of every path of fn main (and Discount::into_params) from the MIR of the current tree",
        "functions": ["main (src/main.rs)", "Discount::into_params"], "bounds": f"acyclic: all {len(paths)} complete paths, no unrolling bound; library calls uninterpreted; f64 in the SMT FP theory",
        "stubs": ["every callee of main is an uninterpreted function of its arguments"], "assumes": [],
        "verdict": "counterexample" if seen_fail else "holds", "cbmc_checks": len(queries), "obligations_proved": stats["unsat"],
        "covers_satisfied": [f"{len(paths)} complete paths", f"{n_out} paths reach the output assembly"], "verification_s": round(time.time() - t0, 2),
    })
    res["coverage"] = {"mir_paths": len(paths), "smt_queries": len(queries), "smt_unsat": stats["unsat"], "smt_sat": stats["sat"],
                       "cross_checked_with_cvc5": cvc5_checked, "mirsmt_samples": samples}
    return res


if __name__ == "__main__":
    r = run(sys.argv[1] if len(sys.argv) > 1 else "C15", "quick")
    print("findings:", [(f.key, f.what[:400]) for f in r["findings"]])
    print("infra:", r["infra"][:5])
    print("evaluations", r["evaluations"], "obligations", len(r["obligations"]), "distinct", len(set(r["obligations"])), "solver_s", round(r["solver_s"], 1))
    print(json.dumps(r["coverage"], indent=1)[:1500])
