//! C02 / C08 / C12 / C06 — one traversal step of the unsampled/chance-sampled traversal
//! (`recurse_single`, `recurse_multi`) from an arbitrary accumulator state, on exact domains.
use super::super::*;
use crate::solve::data::{CachedPayoff, RegretInfoset, RegretParams};
use crate::{Chance, Node, Player, PlayerNum};
use portable_atomic::AtomicF64;
use std::cell::RefCell;
use std::sync::Mutex;

fn q4() -> f64 {
    let k: u8 = kani::any();
    kani::assume(k <= 4);
    k as f64 / 4.0
}

fn int4() -> f64 {
    let k: i8 = kani::any();
    kani::assume(k >= -4 && k <= 4);
    k as f64
}

/// all quantities live on dyadic grids where every product and sum is exact, so any evaluation
/// order gives the same value and plain equality is the right comparison
fn near(a: f64, b: f64) -> bool {
    a == b
}

/// reach / strategy values from {1/4, 1/2, 1}
fn q3() -> f64 {
    let k: u8 = kani::any();
    kani::assume(k <= 2);
    match k {
        0 => 0.25,
        1 => 0.5,
        _ => 1.0,
    }
}

/// payoffs from {-2, 1, 3}
fn pay() -> f64 {
    let k: u8 = kani::any();
    kani::assume(k <= 2);
    match k {
        0 => -2.0,
        1 => 1.0,
        _ => 3.0,
    }
}

fn any_player() -> PlayerNum {
    if kani::any() {
        PlayerNum::One
    } else {
        PlayerNum::Two
    }
}

fn info2(r: [f64; 2], s: [f64; 2], st: [f64; 2]) -> RefCell<RegretInfoset> {
    RefCell::new(RegretInfoset {
        cum_regret: Box::new(r) as Box<[f64]>,
        cum_strat: Box::new(s) as Box<[f64]>,
        strat: Box::new(st) as Box<[f64]>,
    })
}

fn minfo2(r: [f64; 2], s: [f64; 2], st: [f64; 2]) -> MutexRegretInfoset {
    MutexRegretInfoset {
        cum_regret: Box::new([AtomicF64::new(r[0]), AtomicF64::new(r[1])]) as Box<[AtomicF64]>,
        cum_strat: Mutex::new(Box::new(s) as Box<[f64]>),
        strat: Box::new(st) as Box<[f64]>,
    }
}

/// expected effect of visiting a 2-action decision node of `who` whose children are worth u0, u1
/// to player one, with reach (pc, [p1, p2]) and current strategy (s0, s1)
struct Effect {
    value: f64,
    dreg: [f64; 2],
    dstrat: [f64; 2],
}

fn effect(who: PlayerNum, pc: f64, pp: [f64; 2], st: [f64; 2], u: [f64; 2]) -> Effect {
    let value = st[0] * u[0] + st[1] * u[1];
    let (own, w) = match who {
        PlayerNum::One => (pp[0], pc * pp[1]),
        PlayerNum::Two => (pp[1], -(pc * pp[0])),
    };
    Effect {
        value,
        dreg: [w * (u[0] - value), w * (u[1] - value)],
        dstrat: [own * st[0], own * st[1]],
    }
}

/// Skeleton A: one decision node of either player over two terminals.
#[kani::proof]
#[kani::unwind(3)]
fn c08_step_single_player_node() {
    let who = any_player();
    let u = [pay(), pay()];
    let a: f64 = if kani::any() { 0.25 } else { 0.5 };
    let st = [a, 1.0 - a];
    let (pc, pp) = (q3(), [q3(), q3()]);
    let r0 = [1.0, -2.0];
    let s0 = [0.5, 1.5];
    let node = Node::Player(Player { num: who, infoset: 0, actions: Box::new([Node::Terminal(u[0]), Node::Terminal(u[1])]) as Box<[Node]> });
    let mine = [info2(r0, s0, st)];
    let other = [info2([7.0, 7.0], [7.0, 7.0], [0.5, 0.5])];
    let chance: [FullChance<'static>; 0] = [];
    let infos: [&[RefCell<RegretInfoset>]; 2] = match who {
        PlayerNum::One => [&mine[..], &other[..]],
        PlayerNum::Two => [&other[..], &mine[..]],
    };
    let v = recurse_single(&node, &chance[..], infos, pc, pp);
    let e = effect(who, pc, pp, st, u);
    kani::cover!(matches!(who, PlayerNum::Two) && pc == 0.25 && pp[0] == 0.5 && u[0] != u[1] && a == 0.25, "player two below a chance outcome of probability 1/4");
    kani::cover!(matches!(who, PlayerNum::One) && pp[1] == 0.5 && u[0] > u[1], "player one with opponent reach 1/2");
    assert!(near(v, e.value), "C08 step: node value is not the strategy-weighted value of the children");
    let m = mine[0].borrow();
    for i in 0..2 {
        assert!(near(m.cum_regret[i], r0[i] + e.dreg[i]), "C08 step: regret increment is not chance-reach x opponent-reach x (action value - node value), signed for the acting player");
        assert!(near(m.cum_strat[i], s0[i] + e.dstrat[i]), "C08 step: average-strategy increment is not own-reach x current strategy");
        assert!(m.strat[i] == st[i], "C08 step: traversal changed the current strategy");
    }
    let o = other[0].borrow();
    assert!(o.cum_regret[0] == 7.0 && o.cum_strat[1] == 7.0, "C08 step: traversal touched the other player's infoset");
    drop(m);
    drop(o);
    core::mem::forget(node);
    core::mem::forget(mine);
    core::mem::forget(other);
}

/// Same step through the multi-threaded traversal without a payoff cache: identical effect.
#[kani::proof]
#[kani::unwind(3)]
fn c06_step_multi_player_node() {
    let who = any_player();
    let u = [pay(), pay()];
    let a: f64 = if kani::any() { 0.25 } else { 0.5 };
    let st = [a, 1.0 - a];
    let (pc, pp) = (q3(), [q3(), q3()]);
    let r0 = [1.0, -2.0];
    let s0 = [0.5, 1.5];
    let node = Node::Player(Player { num: who, infoset: 0, actions: Box::new([Node::Terminal(u[0]), Node::Terminal(u[1])]) as Box<[Node]> });
    let mut mine = [minfo2(r0, s0, st)];
    let other = [minfo2([7.0, 7.0], [7.0, 7.0], [0.5, 0.5])];
    let chance: [FullChance<'static>; 0] = [];
    let v = {
        let infos: [&[MutexRegretInfoset]; 2] = match who {
            PlayerNum::One => [&mine[..], &other[..]],
            PlayerNum::Two => [&other[..], &mine[..]],
        };
        recurse_multi(&node, &chance[..], infos, pc, pp, &())
    };
    let e = effect(who, pc, pp, st, u);
    kani::cover!(matches!(who, PlayerNum::Two) && pc == 0.25 && pp[0] == 0.5 && u[0] != u[1] && a == 0.25, "player two below a chance outcome of probability 1/4");
    assert!(near(v, e.value), "C06 step: multi-thread traversal value differs from the single-thread one");
    for i in 0..2 {
        let rg = *mine[0].cum_regret[i].get_mut();
        assert!(near(rg, r0[i] + e.dreg[i]), "C06 step: multi-thread regret increment differs from the single-thread one");
    }
    let cs = mine[0].cum_strat.get_mut().unwrap();
    for i in 0..2 {
        assert!(near(cs[i], s0[i] + e.dstrat[i]), "C06 step: multi-thread average-strategy increment differs from the single-thread one");
    }
    core::mem::forget(node);
    core::mem::forget(mine);
    core::mem::forget(other);
}

/// Skeleton B: chance node (1/4, 3/4) over a decision node and a terminal: the value is the
/// probability-weighted sum over ALL outcomes (no sampling), and the child is entered with the
/// chance reach multiplied by its outcome probability.
#[kani::proof]
#[kani::unwind(3)]
fn c08_step_single_chance_node() {
    let who = any_player();
    let u = [pay(), pay()];
    let u2 = pay();
    let a: f64 = if kani::any() { 0.25 } else { 0.5 };
    let st = [a, 1.0 - a];
    let (pc, pp) = (q3(), [q3(), q3()]);
    let r0 = [1.0, -2.0];
    let s0 = [0.5, 1.5];
    let first: bool = kani::any(); // decision node is the first (prob 1/4) or second (prob 3/4) outcome
    let dec = Node::Player(Player { num: who, infoset: 0, actions: Box::new([Node::Terminal(u[0]), Node::Terminal(u[1])]) as Box<[Node]> });
    let outcomes: Box<[Node]> = if first { Box::new([dec, Node::Terminal(u2)]) } else { Box::new([Node::Terminal(u2), dec]) };
    let node = Node::Chance(Chance { outcomes, infoset: 0 });
    let probs = [0.25, 0.75];
    let chance = [FullChance(&probs)];
    let mine = [info2(r0, s0, st)];
    let other: [RefCell<RegretInfoset>; 0] = [];
    let infos: [&[RefCell<RegretInfoset>]; 2] = match who {
        PlayerNum::One => [&mine[..], &other[..]],
        PlayerNum::Two => [&other[..], &mine[..]],
    };
    let v = recurse_single(&node, &chance[..], infos, pc, pp);
    let pdec = if first { 0.25 } else { 0.75 };
    let e = effect(who, pc * pdec, pp, st, u);
    kani::cover!(!first && matches!(who, PlayerNum::Two) && pc == 1.0 && pp[0] == 1.0, "player two below the 3/4 outcome from the root");
    kani::cover!(first && matches!(who, PlayerNum::One), "player one below the 1/4 outcome");
    assert!(near(v, pdec * e.value + (1.0 - pdec) * u2), "C08 step: chance node value is not the probability-weighted sum over every outcome");
    let m = mine[0].borrow();
    for i in 0..2 {
        assert!(near(m.cum_regret[i], r0[i] + e.dreg[i]), "C08 step: regret below a chance node is not weighted by the chance reach (incl. the outcome probability)");
        assert!(near(m.cum_strat[i], s0[i] + e.dstrat[i]), "C08 step: chance probability leaked into the average-strategy weight");
    }
    drop(m);
    core::mem::forget(node);
    core::mem::forget(mine);
}

#[cfg(test)]
#[path = "/verif/.work/playback/vsteps.rs"]
mod pb;
