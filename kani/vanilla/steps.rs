//! C02 / C08 / C12 / C06 — one traversal step of the unsampled/chance-sampled traversal
//! (`recurse_single`, `recurse_multi`) from an arbitrary accumulator state, on exact domains.
use super::super::*;
use crate::solve::data::{CachedPayoff, RegretInfoset, RegretParams};
use crate::{Chance, Node, Player, PlayerNum};
use portable_atomic::AtomicF64;
use std::cell::RefCell;
use std::sync::Mutex;

fn q4() -> f64 {
    let k: u8 = kani::any();
    kani::assume(k <= 4);
    k as f64 / 4.0
}

fn int4() -> f64 {
    let k: i8 = kani::any();
    kani::assume(k >= -4 && k <= 4);
    k as f64
}

/// all quantities live on dyadic grids where every product and sum is exact, so any evaluation
/// order gives the same value and plain equality is the right comparison
fn near(a: f64, b: f64) -> bool {
    a == b
}

/// reach / strategy values from {1/4, 1/2, 1}
fn q3() -> f64 {
    let k: u8 = kani::any();
    kani::assume(k <= 2);
    match k {
        0 => 0.25,
        1 => 0.5,
        _ => 1.0,
    }
}

/// payoffs from {-2, 1, 3}
fn pay() -> f64 {
    let k: u8 = kani::any();
    kani::assume(k <= 2);
    match k {
        0 => -2.0,
        1 => 1.0,
        _ => 3.0,
    }
}

fn any_player() -> PlayerNum {
    if kani::any() {
        PlayerNum::One
    } else {
        PlayerNum::Two
    }
}

fn info2(r: [f64; 2], s: [f64; 2], st: [f64; 2]) -> RefCell<RegretInfoset> {
    RefCell::new(RegretInfoset {
        cum_regret: Box::new(r) as Box<[f64]>,
        cum_strat: Box::new(s) as Box<[f64]>,
        strat: Box::new(st) as Box<[f64]>,
    })
}

fn minfo2(r: [f64; 2], s: [f64; 2], st: [f64; 2]) -> MutexRegretInfoset {
    MutexRegretInfoset {
        cum_regret: Box::new([AtomicF64::new(r[0]), AtomicF64::new(r[1])]) as Box<[AtomicF64]>,
        cum_strat: Mutex::new(Box::new(s) as Box<[f64]>),
        strat: Box::new(st) as Box<[f64]>,
    }
}

/// expected effect of visiting a 2-action decision node of `who` whose children are worth u0, u1
/// to player one, with reach (pc, [p1, p2]) and current strategy (s0, s1)
struct Effect {
    value: f64,
    dreg: [f64; 2],
    dstrat: [f64; 2],
}

fn effect(who: PlayerNum, pc: f64, pp: [f64; 2], st: [f64; 2], u: [f64; 2]) -> Effect {
    let value = st[0] * u[0] + st[1] * u[1];
    let (own, w) = match who {
        PlayerNum::One => (pp[0], pc * pp[1]),
        PlayerNum::Two => (pp[1], -(pc * pp[0])),
    };
    Effect {
        value,
        dreg: [w * (u[0] - value), w * (u[1] - value)],
        dstrat: [own * st[0], own * st[1]],
    }
}

/// The decision-node kernel of both traversals (`recurse_player`, called by recurse_single and
/// recurse_multi with a closure for the recursion): children worth u0, u1 to player one.
/// Returns (node value to player one, what the caller subtracts from every regret); adds the signed,
/// reach-weighted action values to the regrets; passes on the reach with only the acting player's
/// component multiplied by the action probability.
#[kani::proof]
#[kani::unwind(3)]
fn c08_step_recurse_player() {
    let who = any_player();
    let u = [pay(), pay()];
    let a: f64 = if kani::any() { 0.25 } else { 0.5 };
    let st = [a, 1.0 - a];
    let (pc, pp) = (q3(), [q3(), q3()]);
    let r0 = [1.0, -2.0];
    let mut r = r0;
    let node = Player { num: who, infoset: 0, actions: Box::new([Node::Terminal(u[0]), Node::Terminal(u[1])]) as Box<[Node]> };
    let seen = core::cell::Cell::new(0u32);
    let reach_ok = core::cell::Cell::new(true);
    let (value, sub) = recurse_player(&node, pc, pp, &st, r.iter_mut(), |next, p_next| {
        let idx = seen.get() as usize;
        seen.set(seen.get() + 1);
        let (own, other) = match who {
            PlayerNum::One => (0, 1),
            PlayerNum::Two => (1, 0),
        };
        if idx >= 2 || !core::ptr::eq(next, &node.actions[idx]) || p_next[own] != pp[own] * st[idx] || p_next[other] != pp[other] {
            reach_ok.set(false);
        }
        match next {
            Node::Terminal(x) => *x,
            _ => 0.0,
        }
    });
    let e = effect(who, pc, pp, st, u);
    kani::cover!(matches!(who, PlayerNum::Two) && pc == 0.25 && pp[0] == 0.5 && u[0] != u[1] && a == 0.25, "player two below a chance outcome of probability 1/4");
    kani::cover!(matches!(who, PlayerNum::One) && pp[1] == 0.5 && u[0] > u[1], "player one with opponent reach 1/2");
    assert!(seen.get() == 2 && reach_ok.get(), "C08 step: every action must be explored once, in order, with only the acting player's reach multiplied by its probability");
    assert!(near(value, e.value), "C08 step: node value is not the strategy-weighted value of the children");
    for i in 0..2 {
        assert!(near(r[i] - sub, r0[i] + e.dreg[i]), "C08 step: regret increment is not chance-reach x opponent-reach x (action value - node value), signed for the acting player");
    }
    core::mem::forget(node);
}

/// Average-strategy accumulation: own reach x current strategy (plain and mutex infoset).
#[kani::proof]
#[kani::unwind(3)]
fn c08_step_update_cum_strat() {
    let a: f64 = if kani::any() { 0.25 } else { 0.5 };
    let st = [a, 1.0 - a];
    let own = q3();
    let s0 = [0.5, 1.5];
    let mut plain = RegretInfoset {
        cum_regret: Box::new([1.0, -2.0]) as Box<[f64]>,
        cum_strat: Box::new(s0) as Box<[f64]>,
        strat: Box::new(st) as Box<[f64]>,
    };
    PlayerRecurse::update_cum_strat(&mut plain, own);
    let mut mt = minfo2([1.0, -2.0], s0, st);
    MutexPlayerRecurse::update_cum_strat(&mt, own);
    kani::cover!(own == 0.25 && a == 0.25, "reach 1/4, strategy (1/4, 3/4)");
    let cs = mt.cum_strat.get_mut().unwrap();
    for i in 0..2 {
        assert!(near(plain.cum_strat[i], s0[i] + own * st[i]), "C08 step: average-strategy increment is not own-reach x current strategy");
        assert!(near(cs[i], s0[i] + own * st[i]), "C06 step: multi-thread average-strategy increment differs from the single-thread one");
        assert!(plain.cum_regret[i] == [1.0, -2.0][i] && plain.strat[i] == st[i], "C08 step: average-strategy update touched regrets or the current strategy");
    }
    core::mem::forget(plain);
    core::mem::forget(mt);
}

/// The unsampled method enumerates every chance outcome with its declared probability, in order.
#[kani::proof]
#[kani::unwind(4)]
fn c10_full_chance_enumerates_all() {
    let probs = [0.25, 0.5, 0.25];
    let node = Chance { outcomes: Box::new([Node::Terminal(1.0), Node::Terminal(2.0), Node::Terminal(3.0)]) as Box<[Node]>, infoset: 0 };
    let fc = FullChance(&probs);
    let mut n = 0usize;
    let mut ok = true;
    for (p, next) in fc.next_nodes(&node) {
        if n >= 3 || *p != probs[n] || !core::ptr::eq(next, &node.outcomes[n]) {
            ok = false;
        }
        n += 1;
    }
    kani::cover!(n == 3, "three outcomes");
    assert!(n == 3 && ok, "C10 full: the unsampled traversal must visit every chance outcome with its declared probability");
    core::mem::forget(node);
}

#[cfg(test)]
#[path = "/verif/.work/playback/vsteps.rs"]
mod pb;
