//! C02 / C08 / C12 / C06 — one traversal step of the unsampled/chance-sampled traversal
//! (`recurse_single`, `recurse_multi`) from an arbitrary accumulator state, on exact domains.
use super::super::*;
use crate::solve::data::{CachedPayoff, RegretInfoset, RegretParams};
use crate::{Chance, Node, Player, PlayerNum};
use portable_atomic::AtomicF64;
use std::cell::RefCell;
use std::sync::Mutex;

fn q4() -> f64 {
    let k: u8 = kani::any();
    kani::assume(k <= 4);
    k as f64 / 4.0
}

fn int4() -> f64 {
    let k: i8 = kani::any();
    kani::assume(k >= -4 && k <= 4);
    k as f64
}

/// all quantities live on dyadic grids where every product and sum is exact, so any evaluation
/// order gives the same value and plain equality is the right comparison
fn near(a: f64, b: f64) -> bool {
    a == b
}

/// reach / strategy values from {1/4, 1/2, 1}
fn q3() -> f64 {
    let k: u8 = kani::any();
    kani::assume(k <= 2);
    match k {
        0 => 0.25,
        1 => 0.5,
        _ => 1.0,
    }
}

/// payoffs from {-2, 1, 3}
fn pay() -> f64 {
    let k: u8 = kani::any();
    kani::assume(k <= 2);
    match k {
        0 => -2.0,
        1 => 1.0,
        _ => 3.0,
    }
}

fn any_player() -> PlayerNum {
    if kani::any() {
        PlayerNum::One
    } else {
        PlayerNum::Two
    }
}

fn info2(r: [f64; 2], s: [f64; 2], st: [f64; 2]) -> RefCell<RegretInfoset> {
    RefCell::new(RegretInfoset {
        cum_regret: Box::new(r) as Box<[f64]>,
        cum_strat: Box::new(s) as Box<[f64]>,
        strat: Box::new(st) as Box<[f64]>,
    })
}

fn minfo2(r: [f64; 2], s: [f64; 2], st: [f64; 2]) -> MutexRegretInfoset {
    MutexRegretInfoset {
        cum_regret: Box::new([AtomicF64::new(r[0]), AtomicF64::new(r[1])]) as Box<[AtomicF64]>,
        cum_strat: Mutex::new(Box::new(s) as Box<[f64]>),
        strat: Box::new(st) as Box<[f64]>,
    }
}

/// expected effect of visiting a 2-action decision node of `who` whose children are worth u0, u1
/// to player one, with reach (pc, [p1, p2]) and current strategy (s0, s1)
struct Effect {
    value: f64,
    dreg: [f64; 2],
    dstrat: [f64; 2],
}

fn effect(who: PlayerNum, pc: f64, pp: [f64; 2], st: [f64; 2], u: [f64; 2]) -> Effect {
    let value = st[0] * u[0] + st[1] * u[1];
    let (own, w) = match who {
        PlayerNum::One => (pp[0], pc * pp[1]),
        PlayerNum::Two => (pp[1], -(pc * pp[0])),
    };
    Effect {
        value,
        dreg: [w * (u[0] - value), w * (u[1] - value)],
        dstrat: [own * st[0], own * st[1]],
    }
}

/// The decision-node kernel of both traversals (`recurse_player`, called by recurse_single and
/// recurse_multi with a closure for the recursion): children worth u0, u1 to player one.
/// Returns (node value to player one, what the caller subtracts from every regret); adds the signed,
/// reach-weighted action values to the regrets; passes on the reach with only the acting player's
/// component multiplied by the action probability.
#[kani::proof]
#[kani::unwind(3)]
fn c08_step_recurse_player() {
    let who = any_player();
    let u = [pay(), pay()];
    let a: f64 = if kani::any() { 0.25 } else { 0.5 };
    let st = [a, 1.0 - a];
    let (pc, pp) = (q3(), [q3(), q3()]);
    let r0 = [1.0, -2.0];
    let mut r = r0;
    let node = Player {
        num: who,
        infoset: 0,
        actions: Box::new([Node::Terminal(u[0]), Node::Terminal(u[1])]) as Box<[Node]>,
    };
    let seen = core::cell::Cell::new(0u32);
    let reach_ok = core::cell::Cell::new(true);
    let (value, sub) = recurse_player(&node, pc, pp, &st, r.iter_mut(), |next, p_next| {
        let idx = seen.get() as usize;
        seen.set(seen.get() + 1);
        let (own, other) = match who {
            PlayerNum::One => (0, 1),
            PlayerNum::Two => (1, 0),
        };
        if idx >= 2
            || !core::ptr::eq(next, &node.actions[idx])
            || p_next[own] != pp[own] * st[idx]
            || p_next[other] != pp[other]
        {
            reach_ok.set(false);
        }
        match next {
            Node::Terminal(x) => *x,
            _ => 0.0,
        }
    });
    let e = effect(who, pc, pp, st, u);
    kani::cover!(
        matches!(who, PlayerNum::Two) && pc == 0.25 && pp[0] == 0.5 && u[0] != u[1] && a == 0.25,
        "player two below a chance outcome of probability 1/4"
    );
    kani::cover!(
        matches!(who, PlayerNum::One) && pp[1] == 0.5 && u[0] > u[1],
        "player one with opponent reach 1/2"
    );
    assert!(seen.get() == 2 && reach_ok.get(), "C08 step: every action must be explored once, in order, with only the acting player's reach multiplied by its probability");
    assert!(
        near(value, e.value),
        "C08 step: node value is not the strategy-weighted value of the children"
    );
    for i in 0..2 {
        assert!(near(r[i] - sub, r0[i] + e.dreg[i]), "C08 step: regret increment is not chance-reach x opponent-reach x (action value - node value), signed for the acting player");
    }
    core::mem::forget(node);
}

/// Average-strategy accumulation: own reach x current strategy (plain and mutex infoset).
#[kani::proof]
#[kani::unwind(3)]
fn c08_step_update_cum_strat() {
    let a: f64 = if kani::any() { 0.25 } else { 0.5 };
    let st = [a, 1.0 - a];
    let own = q3();
    let s0 = [0.5, 1.5];
    let mut plain = RegretInfoset {
        cum_regret: Box::new([1.0, -2.0]) as Box<[f64]>,
        cum_strat: Box::new(s0) as Box<[f64]>,
        strat: Box::new(st) as Box<[f64]>,
    };
    PlayerRecurse::update_cum_strat(&mut plain, own);
    let mut mt = minfo2([1.0, -2.0], s0, st);
    MutexPlayerRecurse::update_cum_strat(&mt, own);
    kani::cover!(own == 0.25 && a == 0.25, "reach 1/4, strategy (1/4, 3/4)");
    let cs = mt.cum_strat.get_mut().unwrap();
    for i in 0..2 {
        assert!(
            near(plain.cum_strat[i], s0[i] + own * st[i]),
            "C08 step: average-strategy increment is not own-reach x current strategy"
        );
        assert!(
            near(cs[i], s0[i] + own * st[i]),
            "C06 step: multi-thread average-strategy increment differs from the single-thread one"
        );
        assert!(
            plain.cum_regret[i] == [1.0, -2.0][i] && plain.strat[i] == st[i],
            "C08 step: average-strategy update touched regrets or the current strategy"
        );
    }
    core::mem::forget(plain);
    core::mem::forget(mt);
}

/// The unsampled method enumerates every chance outcome with its declared probability, in order.
#[kani::proof]
#[kani::unwind(4)]
fn c10_full_chance_enumerates_all() {
    let probs = [0.25, 0.5, 0.25];
    let node = Chance {
        outcomes: Box::new([
            Node::Terminal(1.0),
            Node::Terminal(2.0),
            Node::Terminal(3.0),
        ]) as Box<[Node]>,
        infoset: 0,
    };
    let fc = FullChance(&probs);
    let mut n = 0usize;
    let mut ok = true;
    for (p, next) in fc.next_nodes(&node) {
        if n >= 3 || *p != probs[n] || !core::ptr::eq(next, &node.outcomes[n]) {
            ok = false;
        }
        n += 1;
    }
    kani::cover!(n == 3, "three outcomes");
    assert!(n == 3 && ok, "C10 full: the unsampled traversal must visit every chance outcome with its declared probability");
    core::mem::forget(node);
}

/// A payoff cache that knows every node except the root: the traversal code around the kernels
/// (`recurse_multi`: cache lookup, average-strategy update with the OWN reach, regret correction,
/// chance expectation) runs for real on the root while the recursion ends at the children.
struct ChildCache {
    root: *const Node,
    kids: [*const Node; 2],
    vals: [f64; 2],
}

impl CachedPayoff for ChildCache {
    fn get_payoff(&self, node: &Node) -> Option<f64> {
        let p = node as *const Node;
        if p == self.root {
            None
        } else if p == self.kids[0] {
            Some(self.vals[0])
        } else if p == self.kids[1] {
            Some(self.vals[1])
        } else {
            Some(f64::NAN)
        }
    }
}

// NOTE: the decision-node arm of `recurse_multi` cannot be executed symbolically: AtomicF64::fetch_add
// is a compare-exchange retry loop (portable_atomic) that CBMC cannot bound (timeout at 600 s).

/// `recurse_multi` on a chance node (1/4, 3/4) whose children are cached: the value is the
/// probability-weighted sum over every outcome; a cached root is returned as is.
#[kani::proof]
#[kani::unwind(3)]
fn c06_recurse_multi_chance_and_cached_root() {
    let u = [pay(), pay()];
    let node = Node::Chance(Chance {
        outcomes: Box::new([Node::Terminal(9.0), Node::Terminal(-9.0)]) as Box<[Node]>,
        infoset: 0,
    });
    let kids = match &node {
        Node::Chance(c) => [&c.outcomes[0] as *const Node, &c.outcomes[1] as *const Node],
        _ => unreachable!(),
    };
    let probs = [0.25, 0.75];
    let chance = [FullChance(&probs)];
    let none: [MutexRegretInfoset; 0] = [];
    let cache = ChildCache {
        root: &node as *const Node,
        kids,
        vals: u,
    };
    let v = recurse_multi(
        &node,
        &chance[..],
        [&none[..], &none[..]],
        q3(),
        [q3(), q3()],
        &cache,
    );
    kani::cover!(u[0] != u[1], "outcome values differ");
    assert!(
        near(v, 0.25 * u[0] + 0.75 * u[1]),
        "C08 step: chance node value is not the probability-weighted sum over every outcome"
    );
    // the root itself cached: nothing below is visited, the cached value is the result
    let cache2 = ChildCache {
        root: core::ptr::null(),
        kids: [&node as *const Node, core::ptr::null()],
        vals: [5.0, 0.0],
    };
    let v2 = recurse_multi(
        &node,
        &chance[..],
        [&none[..], &none[..]],
        1.0,
        [1.0, 1.0],
        &cache2,
    );
    assert!(
        v2 == 5.0,
        "C06 cache: a cached node must return its cached payoff"
    );
    core::mem::forget(node);
}

/// `recurse_single` on a chance node over two terminals (no decision node anywhere): value is the
/// probability-weighted sum over every outcome.
#[kani::proof]
#[kani::unwind(3)]
fn c08_recurse_single_chance_over_terminals() {
    let u = [pay(), pay()];
    let node = Node::Chance(Chance {
        outcomes: Box::new([Node::Terminal(u[0]), Node::Terminal(u[1])]) as Box<[Node]>,
        infoset: 0,
    });
    let probs = [0.25, 0.75];
    let chance = [FullChance(&probs)];
    let none: [RefCell<RegretInfoset>; 0] = [];
    let v = recurse_single(
        &node,
        &chance[..],
        [&none[..], &none[..]],
        q3(),
        [q3(), q3()],
    );
    kani::cover!(u[0] != u[1], "outcome values differ");
    assert!(near(v, 0.25 * u[0] + 0.75 * u[1]), "C08 step: chance node value is not the probability-weighted sum over every outcome (single-thread traversal)");
    core::mem::forget(node);
}

/// The decision-node glue of `recurse_single` on the smallest possible node (one action over a
/// terminal; keeps the real recursion at depth 2): the average strategy receives the ACTING player's
/// own reach times the strategy, the value is the child's, regrets net out to no change.
#[kani::proof]
#[kani::unwind(2)]
fn c08_recurse_single_one_action_node() {
    let who = any_player();
    let u = pay();
    let (pc, pp) = (q3(), [q3(), q3()]);
    let node = Node::Player(Player {
        num: who,
        infoset: 0,
        actions: Box::new([Node::Terminal(u)]) as Box<[Node]>,
    });
    let mine = [RefCell::new(RegretInfoset {
        cum_regret: Box::new([1.5]) as Box<[f64]>,
        cum_strat: Box::new([0.5]) as Box<[f64]>,
        strat: Box::new([1.0]) as Box<[f64]>,
    })];
    let other: [RefCell<RegretInfoset>; 0] = [];
    let chance: [FullChance<'static>; 0] = [];
    let infos: [&[RefCell<RegretInfoset>]; 2] = match who {
        PlayerNum::One => [&mine[..], &other[..]],
        PlayerNum::Two => [&other[..], &mine[..]],
    };
    let v = recurse_single(&node, &chance[..], infos, pc, pp);
    let own = match who {
        PlayerNum::One => pp[0],
        PlayerNum::Two => pp[1],
    };
    kani::cover!(pp[0] != pp[1], "the two players' reach differ");
    assert!(
        v == u,
        "C08 step: value of a one-action node is its child's value"
    );
    let m = mine[0].borrow();
    assert!(m.cum_strat[0] == 0.5 + own, "C08 step: average strategy must be updated with the acting player's own reach (single-thread traversal)");
    assert!(
        m.cum_regret[0] == 1.5,
        "C08 step: regret of the only action must not change"
    );
    drop(m);
    core::mem::forget(node);
    core::mem::forget(mine);
}

/// C12 — player mirror: the step at a player-two node with payoffs -u and the two reach
/// components exchanged accumulates exactly the regrets of the player-one step with payoffs u, and
/// returns the negated value. Payoff scaling by 2 scales value and regret increments by 2.
#[kani::proof]
#[kani::unwind(3)]
fn c12_step_mirror_and_scale() {
    let u = [pay(), pay()];
    let a: f64 = if kani::any() { 0.25 } else { 0.5 };
    let st = [a, 1.0 - a];
    let (pc, pp) = (q3(), [q3(), q3()]);
    let run = |who: PlayerNum, pay: [f64; 2], reach: [f64; 2]| -> (f64, [f64; 2]) {
        let node = Player {
            num: who,
            infoset: 0,
            actions: Box::new([Node::Terminal(pay[0]), Node::Terminal(pay[1])]) as Box<[Node]>,
        };
        let mut r = [0.0, 0.0];
        let (value, sub) =
            recurse_player(&node, pc, reach, &st, r.iter_mut(), |next, _| match next {
                Node::Terminal(x) => *x,
                _ => 0.0,
            });
        core::mem::forget(node);
        (value, [r[0] - sub, r[1] - sub])
    };
    let (v1, r1) = run(PlayerNum::One, u, pp);
    let (v2, r2) = run(PlayerNum::Two, [-u[0], -u[1]], [pp[1], pp[0]]);
    let (v3, r3) = run(PlayerNum::One, [2.0 * u[0], 2.0 * u[1]], pp);
    kani::cover!(
        u[0] != u[1] && pp[0] != pp[1],
        "asymmetric payoffs and reach"
    );
    assert!(
        v2 == -v1,
        "C12 mirror: exchanging the players while negating payoffs must negate the node value"
    );
    assert!(
        r2[0] == r1[0] && r2[1] == r1[1],
        "C12 mirror: exchanging the players while negating payoffs must give the same regrets"
    );
    assert!(
        v3 == 2.0 * v1 && r3[0] == 2.0 * r1[0] && r3[1] == 2.0 * r1[1],
        "C12 scale: multiplying payoffs by c must multiply value and regret increments by c"
    );
}

#[cfg(test)]
#[path = "/verif/.work/playback/vsteps.rs"]
mod pb;
