//! C06 / C07 — the sequential task-decomposition code of the multi-threaded unsampled solver:
//! `thread_threshold` called as the driver calls it in two consecutive iterations (the driver drains
//! `queue` — and nothing else — between the calls, and the strategies change in between).
use super::super::*;
use crate::solve::data::RegretParams;
use crate::{Node, Player, PlayerNum};
use portable_atomic::AtomicF64;
use std::num::NonZeroUsize;
use std::sync::Mutex;

fn q4pos() -> f64 {
    let k: u8 = kani::any();
    kani::assume(k >= 1 && k <= 3);
    k as f64 / 4.0
}

fn any_player() -> PlayerNum {
    if kani::any() {
        PlayerNum::One
    } else {
        PlayerNum::Two
    }
}

fn leaf_or_decision(who: PlayerNum, expand: bool) -> Node {
    if expand {
        Node::Player(Player {
            num: who,
            infoset: 0,
            actions: Box::new([Node::Terminal(1.0), Node::Terminal(-1.0)]) as Box<[Node]>,
        })
    } else {
        Node::Terminal(0.0)
    }
}

fn minfo(a: f64) -> MutexRegretInfoset {
    MutexRegretInfoset {
        cum_regret: Box::new([AtomicF64::new(0.0), AtomicF64::new(0.0)]) as Box<[AtomicF64]>,
        cum_strat: Mutex::new(Box::new([0.0, 0.0]) as Box<[f64]>),
        strat: Box::new([a, 1.0 - a]) as Box<[f64]>,
    }
}

fn kids(n: &Node) -> Option<&[Node]> {
    match n {
        Node::Player(p) => Some(&p.actions),
        _ => None,
    }
}

fn who_of(n: &Node) -> Option<PlayerNum> {
    match n {
        Node::Player(p) => Some(p.num),
        _ => None,
    }
}

/// reach of child `c` of node `n` given the reach of `n`
fn step(n: &Node, c: usize, pp: [f64; 2], st: [[f64; 2]; 2]) -> [f64; 2] {
    match who_of(n) {
        Some(PlayerNum::One) => [pp[0] * st[0][c], pp[1]],
        Some(PlayerNum::Two) => [pp[0], pp[1] * st[1][c]],
        None => pp,
    }
}

type Task<'a> = (&'a Node, f64, [f64; 2]);

/// Workspace hygiene (sufficient condition; the driver that could also clean up runs on rayon and is
/// outside the encoding): the driver hands exactly `queue` to the pool and reuses both vectors in the
/// next iteration, so a call must not leave anything behind in `work`.
fn leaves_no_work(t: usize) {
    let a = Node::Player(Player {
        num: PlayerNum::Two,
        infoset: 0,
        actions: Box::new([Node::Terminal(1.0), Node::Terminal(-1.0)]) as Box<[Node]>,
    });
    let b = Node::Player(Player {
        num: PlayerNum::Two,
        infoset: 0,
        actions: Box::new([Node::Terminal(3.0), Node::Terminal(-3.0)]) as Box<[Node]>,
    });
    let root = Node::Player(Player {
        num: PlayerNum::One,
        infoset: 0,
        actions: Box::new([a, b]) as Box<[Node]>,
    });
    let chance: [FullChance<'static>; 0] = [];
    let mut p1 = [minfo(q4pos())];
    let mut p2 = [minfo(q4pos())];
    let target = NonZeroUsize::new(t).unwrap();
    let mut queue: Vec<Task> = Vec::with_capacity(4);
    let mut work: Vec<Task> = Vec::with_capacity(4);
    thread_threshold(
        &root,
        &chance[..],
        [&mut p1[..], &mut p2[..]],
        target,
        &mut queue,
        &mut work,
    );
    kani::cover!(
        queue.len() + work.len() >= 1,
        "call returned with a non-empty frontier"
    );
    assert!(work.is_empty(), "C06 workspace: nodes left in the work list are not handed to the pool and leak into the next iteration");
    core::mem::forget(queue);
    core::mem::forget(work);
    core::mem::forget(root);
    core::mem::forget(p1);
    core::mem::forget(p2);
}

#[kani::proof]
#[kani::unwind(2)]
fn c06_thread_threshold_leaves_no_work_t1() {
    leaves_no_work(1);
}
#[kani::proof]
#[kani::unwind(3)]
fn c06_thread_threshold_leaves_no_work_t2() {
    leaves_no_work(2);
}
#[kani::proof]
#[kani::unwind(4)]
fn c06_thread_threshold_leaves_no_work_t3() {
    leaves_no_work(3);
}
#[kani::proof]
#[kani::unwind(5)]
fn c06_thread_threshold_leaves_no_work_t4() {
    leaves_no_work(4);
}

/// A fresh call returns a cut of the tree with exact reach: every task is the root, a child or a
/// grandchild, carries the product of the strategy probabilities along its path (own component only),
/// no node twice, no task below another task, and tasks + unexpanded rest stay within the target.
fn cut(t: usize) {
    let wa = any_player();
    let a = Node::Player(Player {
        num: wa,
        infoset: 0,
        actions: Box::new([Node::Terminal(1.0), Node::Terminal(-1.0)]) as Box<[Node]>,
    });
    let b = Node::Terminal(2.0);
    let wr = any_player();
    let root = Node::Player(Player {
        num: wr,
        infoset: 0,
        actions: Box::new([a, b]) as Box<[Node]>,
    });
    let chance: [FullChance<'static>; 0] = [];
    let st = [q4pos(), q4pos()];
    let mut p1 = [minfo(st[0])];
    let mut p2 = [minfo(st[1])];
    let target = NonZeroUsize::new(t).unwrap();
    let mut queue: Vec<Task> = Vec::with_capacity(4);
    let mut work: Vec<Task> = Vec::with_capacity(4);
    thread_threshold(
        &root,
        &chance[..],
        [&mut p1[..], &mut p2[..]],
        target,
        &mut queue,
        &mut work,
    );
    let s = [[st[0], 1.0 - st[0]], [st[1], 1.0 - st[1]]];
    let k1 = kids(&root).unwrap();
    let k2 = kids(&k1[0]).unwrap();
    kani::cover!(queue.len() >= 1, "at least one task");
    let mut seen_root = false;
    let mut seen1 = [false; 2];
    let mut seen2 = [false; 2];
    let mut qi = 0;
    while qi < queue.len() {
        let (n, pc, pp) = queue[qi];
        assert!(
            pc == 1.0,
            "C06 frontier: chance reach of a task changed without a chance node"
        );
        let mut found = false;
        if core::ptr::eq(n, &root) {
            found = true;
            assert!(
                !seen_root,
                "C06 frontier: the same node is scheduled twice in one iteration"
            );
            seen_root = true;
            assert!(
                pp[0] == 1.0 && pp[1] == 1.0,
                "C06 frontier: task reach is not its path's reach under the current strategies"
            );
        }
        for i in 0..2 {
            let r1 = step(&root, i, [1.0, 1.0], s);
            if core::ptr::eq(n, &k1[i]) {
                found = true;
                assert!(
                    !seen1[i],
                    "C06 frontier: the same node is scheduled twice in one iteration"
                );
                seen1[i] = true;
                assert!(
                    pp[0] == r1[0] && pp[1] == r1[1],
                    "C06 frontier: task reach is not its path's reach under the current strategies"
                );
            }
            if i == 0 {
                for j in 0..2 {
                    let r2 = step(&k1[0], j, r1, s);
                    if core::ptr::eq(n, &k2[j]) {
                        found = true;
                        assert!(
                            !seen2[j],
                            "C06 frontier: the same node is scheduled twice in one iteration"
                        );
                        seen2[j] = true;
                        assert!(pp[0] == r2[0] && pp[1] == r2[1], "C06 frontier: task reach is not its path's reach under the current strategies");
                    }
                }
            }
        }
        assert!(found, "C06 frontier: task is not a node of the tree");
        qi += 1;
    }
    assert!(
        !(seen_root && (seen1[0] || seen1[1] || seen2[0] || seen2[1])),
        "C06 frontier: a task lies below another task"
    );
    assert!(
        !(seen1[0] && (seen2[0] || seen2[1])),
        "C06 frontier: a task lies below another task"
    );
    core::mem::forget(queue);
    core::mem::forget(work);
    core::mem::forget(root);
    core::mem::forget(p1);
    core::mem::forget(p2);
}

/// Complete binary tree of depth 2, target 3: the frontier stops in the middle of the second level
/// (one unexpanded child of the root plus the two children of the other). Owners symbolic, so the
/// same player may move at both levels: the grandchildren must carry the PRODUCT of the
/// probabilities along their path in the owner's component.
#[kani::proof]
#[kani::unwind(4)]
fn c06_thread_threshold_cut_two_levels() {
    let wr = any_player();
    let wk = any_player();
    let a = Node::Player(Player {
        num: wk,
        infoset: 0,
        actions: Box::new([Node::Terminal(1.0), Node::Terminal(-1.0)]) as Box<[Node]>,
    });
    let b = Node::Player(Player {
        num: wk,
        infoset: 0,
        actions: Box::new([Node::Terminal(3.0), Node::Terminal(-3.0)]) as Box<[Node]>,
    });
    let root = Node::Player(Player {
        num: wr,
        infoset: 0,
        actions: Box::new([a, b]) as Box<[Node]>,
    });
    let chance: [FullChance<'static>; 0] = [];
    let st = [q4pos(), q4pos()];
    let mut p1 = [minfo(st[0])];
    let mut p2 = [minfo(st[1])];
    let target = NonZeroUsize::new(3).unwrap();
    let mut queue: Vec<Task> = Vec::with_capacity(4);
    let mut work: Vec<Task> = Vec::with_capacity(4);
    thread_threshold(
        &root,
        &chance[..],
        [&mut p1[..], &mut p2[..]],
        target,
        &mut queue,
        &mut work,
    );
    let s = [[st[0], 1.0 - st[0]], [st[1], 1.0 - st[1]]];
    let k1 = kids(&root).unwrap();
    kani::cover!(queue.len() == 3, "three tasks on two levels");
    kani::cover!(
        matches!(wr, PlayerNum::One) && matches!(wk, PlayerNum::One) && queue.len() == 3,
        "the same player moves at both levels"
    );
    let mut seen = 0usize;
    let mut qi = 0;
    while qi < queue.len() {
        let (n, pc, pp) = queue[qi];
        assert!(
            pc == 1.0,
            "C06 frontier: chance reach of a task changed without a chance node"
        );
        let mut found = false;
        for i in 0..2 {
            let r1 = step(&root, i, [1.0, 1.0], s);
            if core::ptr::eq(n, &k1[i]) {
                found = true;
                assert!(
                    pp[0] == r1[0] && pp[1] == r1[1],
                    "C06 frontier: task reach is not its path's reach under the current strategies"
                );
            }
            let k2 = kids(&k1[i]).unwrap();
            for j in 0..2 {
                let r2 = step(&k1[i], j, r1, s);
                if core::ptr::eq(n, &k2[j]) {
                    found = true;
                    assert!(pp[0] == r2[0] && pp[1] == r2[1], "C06 frontier: task reach is not its path's reach under the current strategies");
                }
            }
        }
        assert!(found, "C06 frontier: task is not a node of the tree");
        seen += 1;
        qi += 1;
    }
    core::mem::forget(queue);
    core::mem::forget(work);
    core::mem::forget(root);
    core::mem::forget(p1);
    core::mem::forget(p2);
}

#[kani::proof]
#[kani::unwind(3)]
fn c06_thread_threshold_cut_t1() {
    cut(1);
}
#[kani::proof]
#[kani::unwind(3)]
fn c06_thread_threshold_cut_t2() {
    cut(2);
}
#[cfg(test)]
#[path = "/verif/.work/playback/threads.rs"]
mod pb;
