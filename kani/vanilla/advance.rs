//! C08 / C02 — order of the per-infoset update: regret-match, discount regrets (t), discount the
//! average strategy (t), report the bound — for the plain and the mutex/atomic infoset.
use super::super::*;
use crate::solve::data::{RegretInfoset, RegretParams};
use portable_atomic::AtomicF64;
use std::sync::Mutex;

fn small_int() -> f64 {
    let k: i8 = kani::any();
    kani::assume(k >= -8 && k <= 8);
    k as f64
}

fn special() -> f64 {
    let k: u8 = kani::any();
    kani::assume(k <= 2);
    match k {
        0 => f64::NEG_INFINITY,
        1 => 0.0,
        _ => f64::INFINITY,
    }
}

pub(crate) static mut POW_BASE: f64 = -1.0;
pub(crate) static mut POW_EXP: f64 = -1.0;
pub(crate) static mut POW_CALLS: u32 = 0;
pub(crate) fn powf_half(b: f64, e: f64) -> f64 {
    unsafe {
        POW_BASE = b;
        POW_EXP = e;
        POW_CALLS += 1;
    }
    0.5
}

fn spec(p: &RegretParams, it: u64, r: &mut [f64; 2], cs: &mut [f64; 2], st: &mut [f64; 2]) -> f64 {
    p.regret_match(r, &mut st[..]);
    p.discount_cum_regret(it, r);
    p.discount_average_strat(it, &mut cs[..]);
    p.cum_regret(it, r)
}

/// gamma = 0 (no powf): all (alpha, beta, weight) in {-inf,0,inf}^3, integer regrets, iteration 1..=8.
#[kani::proof]
#[kani::unwind(4)]
fn c08_advance_order_plain() {
    let p = RegretParams::new(special(), special(), 0.0, special());
    let it: u8 = kani::any();
    kani::assume(it >= 1 && it <= 8);
    let r0 = [small_int(), small_int()];
    let c0 = [1.0, 3.0];
    let mut info = RegretInfoset {
        cum_regret: Box::new(r0) as Box<[f64]>,
        cum_strat: Box::new(c0) as Box<[f64]>,
        strat: Box::new([0.25, 0.75]) as Box<[f64]>,
    };
    let got = PlayerRecurse::advance(&mut info, it as u64, &p);
    let (mut r, mut cs, mut st) = (r0, c0, [0.25, 0.75]);
    let want = spec(&p, it as u64, &mut r, &mut cs, &mut st);
    kani::cover!(
        p.pos_regret == f64::NEG_INFINITY && r0[0] > 0.0 && r0[1] < 0.0,
        "forgetting positive regret after matching on it"
    );
    kani::cover!(
        r0[0] <= 0.0 && r0[1] <= 0.0 && p.no_positive == f64::INFINITY,
        "fallback to the best action"
    );
    for i in 0..2 {
        assert!(
            info.strat[i] == st[i],
            "C08 order: next strategy is not regret matching on the undiscounted cumulative regret"
        );
        assert!(
            info.cum_regret[i] == r[i] || (info.cum_regret[i] == 0.0 && r[i] == 0.0),
            "C08 order: cumulative regret after the update is not the discounted regret"
        );
        assert!(
            info.cum_strat[i] == cs[i],
            "C08 order: average strategy changed although gamma is 0"
        );
    }
    assert!(
        got == want,
        "C02 bound: reported bound is not 2*max(R,0)/t of the discounted regrets of this iteration"
    );
    core::mem::forget(info);
}

/// Same for the infoset type of the multi-threaded solvers.
#[kani::proof]
#[kani::unwind(4)]
fn c08_advance_order_mutex() {
    let p = RegretParams::new(special(), special(), 0.0, special());
    let it: u8 = kani::any();
    kani::assume(it >= 1 && it <= 8);
    let r0 = [small_int(), small_int()];
    let c0 = [1.0, 3.0];
    let mut info = MutexRegretInfoset {
        cum_regret: Box::new([AtomicF64::new(r0[0]), AtomicF64::new(r0[1])]) as Box<[AtomicF64]>,
        cum_strat: Mutex::new(Box::new(c0) as Box<[f64]>),
        strat: Box::new([0.25, 0.75]) as Box<[f64]>,
    };
    let got = MutexPlayerRecurse::advance(&mut info, it as u64, &p);
    let (mut r, mut cs, mut st) = (r0, c0, [0.25, 0.75]);
    let want = spec(&p, it as u64, &mut r, &mut cs, &mut st);
    kani::cover!(
        p.pos_regret == 0.0 && r0[0] > 0.0 && r0[1] > 0.0,
        "halving positive regrets"
    );
    let cs_got = info.cum_strat.get_mut().unwrap();
    for i in 0..2 {
        let rg = *info.cum_regret[i].get_mut();
        assert!(info.strat[i] == st[i], "C08 order: next strategy is not regret matching on the undiscounted cumulative regret (multi-thread infoset)");
        assert!(rg == r[i] || (rg == 0.0 && r[i] == 0.0), "C08 order: cumulative regret after the update is not the discounted regret (multi-thread infoset)");
        assert!(
            cs_got[i] == cs[i],
            "C08 order: average strategy changed although gamma is 0 (multi-thread infoset)"
        );
    }
    assert!(got == want, "C02 bound: reported bound is not 2*max(R,0)/t of the discounted regrets (multi-thread infoset)");
    core::mem::forget(info);
}

/// gamma > 0: the average strategy is discounted once per update with base t/(t+1) and exponent gamma.
#[kani::proof]
#[kani::unwind(4)]
#[kani::stub(f64::powf, powf_half)]
fn c08_advance_average_index_plain() {
    let g: u8 = kani::any();
    kani::assume(g >= 1 && g <= 3);
    let p = RegretParams::new(f64::INFINITY, f64::INFINITY, g as f64, 0.0);
    let it: u8 = kani::any();
    kani::assume(it >= 1 && it <= 16);
    let mut info = RegretInfoset {
        cum_regret: Box::new([1.0, -1.0]) as Box<[f64]>,
        cum_strat: Box::new([1.0, 3.0]) as Box<[f64]>,
        strat: Box::new([0.25, 0.75]) as Box<[f64]>,
    };
    let _ = PlayerRecurse::advance(&mut info, it as u64, &p);
    kani::cover!(it == 5 && g == 2, "iteration 5, gamma 2");
    unsafe {
        let t = it as f64;
        assert!(
            POW_CALLS == 1,
            "C08 average: the average strategy must be discounted exactly once per update"
        );
        assert!(
            POW_BASE >= t / (t + 1.0) - 1e-12 && POW_BASE <= t / (t + 1.0) + 1e-12,
            "C08 average: discount base is not t/(t+1) for the current iteration"
        );
        assert!(
            POW_EXP == g as f64,
            "C08 average: discount exponent is not gamma"
        );
    }
    assert!(
        info.cum_strat[0] == 0.5 && info.cum_strat[1] == 1.5,
        "C08 average: average strategy not scaled by the weight"
    );
    core::mem::forget(info);
}

/// Same for the infoset type of the multi-threaded solvers.
#[kani::proof]
#[kani::unwind(4)]
#[kani::stub(f64::powf, powf_half)]
fn c08_advance_average_index_mutex() {
    let g: u8 = kani::any();
    kani::assume(g >= 1 && g <= 3);
    let p = RegretParams::new(f64::INFINITY, f64::INFINITY, g as f64, 0.0);
    let it: u8 = kani::any();
    kani::assume(it >= 1 && it <= 16);
    let mut info = MutexRegretInfoset {
        cum_regret: Box::new([AtomicF64::new(1.0), AtomicF64::new(-1.0)]) as Box<[AtomicF64]>,
        cum_strat: Mutex::new(Box::new([1.0, 3.0]) as Box<[f64]>),
        strat: Box::new([0.25, 0.75]) as Box<[f64]>,
    };
    let _ = MutexPlayerRecurse::advance(&mut info, it as u64, &p);
    kani::cover!(it == 5 && g == 2, "iteration 5, gamma 2");
    unsafe {
        let t = it as f64;
        assert!(POW_CALLS == 1, "C08 average: the average strategy must be discounted exactly once per update (multi-thread infoset)");
        assert!(POW_BASE >= t / (t + 1.0) - 1e-12 && POW_BASE <= t / (t + 1.0) + 1e-12, "C08 average: discount base is not t/(t+1) for the current iteration (multi-thread infoset)");
        assert!(
            POW_EXP == g as f64,
            "C08 average: discount exponent is not gamma (multi-thread infoset)"
        );
    }
    let cs = info.cum_strat.get_mut().unwrap();
    assert!(
        cs[0] == 0.5 && cs[1] == 1.5,
        "C08 average: average strategy not scaled by the weight (multi-thread infoset)"
    );
    core::mem::forget(info);
}

/// The regret discount of iteration t is computed with index t (finite exponents: gen_discount is
/// replaced by a recorder; the special exponents above cannot see the index).
static mut GD_ITS: [u64; 4] = [0; 4];
static mut GD_N: usize = 0;
pub(crate) fn gen_discount_rec(it: u64, _discount: f64) -> f64 {
    unsafe {
        if GD_N < 4 {
            GD_ITS[GD_N] = it;
        }
        GD_N += 1;
    }
    0.5
}

#[kani::proof]
#[kani::unwind(4)]
#[kani::stub(RegretParams::gen_discount, gen_discount_rec)]
fn c08_advance_regret_discount_index() {
    let p = RegretParams::new(1.5, 0.5, 0.0, 0.0);
    let it: u8 = kani::any();
    kani::assume(it >= 1 && it <= 100);
    let mut info = RegretInfoset {
        cum_regret: Box::new([2.0, -4.0]) as Box<[f64]>,
        cum_strat: Box::new([1.0, 3.0]) as Box<[f64]>,
        strat: Box::new([0.25, 0.75]) as Box<[f64]>,
    };
    let b = PlayerRecurse::advance(&mut info, it as u64, &p);
    let mut minfo = MutexRegretInfoset {
        cum_regret: Box::new([AtomicF64::new(2.0), AtomicF64::new(-4.0)]) as Box<[AtomicF64]>,
        cum_strat: Mutex::new(Box::new([1.0, 3.0]) as Box<[f64]>),
        strat: Box::new([0.25, 0.75]) as Box<[f64]>,
    };
    let b2 = MutexPlayerRecurse::advance(&mut minfo, it as u64, &p);
    kani::cover!(it == 7, "iteration 7");
    unsafe {
        assert!(
            GD_N == 4,
            "C08 order: each update must compute one positive and one negative regret discount"
        );
        assert!(GD_ITS[0] == it as u64 && GD_ITS[1] == it as u64 && GD_ITS[2] == it as u64 && GD_ITS[3] == it as u64,
            "C08 order: regret discount computed with an iteration index other than the current one");
    }
    assert!(
        info.cum_regret[0] == 1.0 && info.cum_regret[1] == -2.0,
        "C08 order: regrets not multiplied by their discount factors"
    );
    assert!(
        b == 2.0 * 1.0 / it as f64 && b2 == b,
        "C02 bound: reported bound is not 2*max(R,0)/t of the discounted regrets"
    );
    core::mem::forget(info);
    core::mem::forget(minfo);
}

#[cfg(test)]
#[path = "/verif/.work/playback/advance.rs"]
mod pb;
