//! C09 / C08 / C02 / C05 — the real single-thread driver loop `solve_generic_single` (used by the
//! Full and Sampled methods) with the traversal and the per-infoset update replaced by stubs.
use super::super::*;
use crate::solve::data::{RegretInfoset, RegretParams};
use crate::{Node, PlayerNum};
use std::cell::RefCell;

pub(crate) const MAXN: usize = 4;
// ghost state
static mut ROOT: usize = 0;
static mut TRAVERSALS: u64 = 0;
static mut BAD_TRAVERSAL_ARGS: bool = false;
/// BOUNDS[t-1][id]: what `advance` reports for infoset id at iteration t. ids: 0,1 player one; 2 player two.
static mut BOUNDS: [[f64; 3]; MAXN] = [[0.0; 3]; MAXN];
static mut ADVANCES: [u64; 3] = [0; 3];
static mut ORDER_OK: bool = true;
static mut TOTAL_ADVANCES: u64 = 0;
static mut CHANCE_ADVANCES: u64 = 0;

fn recurse_single_stub<C: ChanceRecurse>(
    node: &Node,
    _chance_infosets: &[C],
    _player_infosets: [&[RefCell<RegretInfoset>]; 2],
    p_chance: f64,
    p_player: [f64; 2],
) -> f64 {
    unsafe {
        if node as *const Node as usize != ROOT
            || p_chance != 1.0
            || p_player[0] != 1.0
            || p_player[1] != 1.0
        {
            BAD_TRAVERSAL_ARGS = true;
        }
        // the traversal of iteration t must come before any update of iteration t and after all
        // updates of iteration t-1
        if TOTAL_ADVANCES != 3 * TRAVERSALS {
            ORDER_OK = false;
        }
        TRAVERSALS += 1;
    }
    0.0
}

/// identifies the infoset by its number of actions (2, 3: player one; 4: player two)
fn advance_stub(info: &mut RegretInfoset, it: u64, _params: &RegretParams) -> f64 {
    unsafe {
        let id = info.strat.len() - 2;
        if it != TRAVERSALS || ADVANCES[id] + 1 != it {
            ORDER_OK = false;
        }
        ADVANCES[id] += 1;
        TOTAL_ADVANCES += 1;
        BOUNDS[(it - 1) as usize][id]
    }
}

fn bound_of(t: usize) -> [f64; 2] {
    unsafe { [BOUNDS[t - 1][0] + BOUNDS[t - 1][1], BOUNDS[t - 1][2]] }
}

fn fmax(a: f64, b: f64) -> f64 {
    if a >= b {
        a
    } else {
        b
    }
}

fn run(budget_max: u64) {
    let root = Node::Terminal(0.0);
    unsafe {
        ROOT = &root as *const Node as usize;
    }
    let n: u64 = kani::any();
    kani::assume(n <= budget_max);
    let r: f64 = kani::any(); // every bit pattern: NaN, +-0, +-inf, negative
                              // quarter grid: sums over a player's infosets are exact in any order
    macro_rules! set {
        ($t:expr, $id:expr) => {
            let k: u8 = kani::any();
            kani::assume(k <= 16);
            unsafe {
                BOUNDS[$t][$id] = k as f64 / 4.0;
            }
        };
    }
    set!(0, 0);
    set!(0, 1);
    set!(0, 2);
    set!(1, 0);
    set!(1, 1);
    set!(1, 2);
    set!(2, 0);
    set!(2, 1);
    set!(2, 2);
    set!(3, 0);
    set!(3, 1);
    set!(3, 2);
    let chance: Box<[FullChance<'static>]> = Box::new([]);
    let players: [Box<[RefCell<RegretInfoset>]>; 2] = [
        Box::new([
            RefCell::new(RegretInfoset::new(2)),
            RefCell::new(RegretInfoset::new(3)),
        ]),
        Box::new([RefCell::new(RegretInfoset::new(4))]),
    ];
    let params = RegretParams::vanilla();
    let (regs, strats) = solve_generic_single(&root, chance, players, n, r, &params);
    // specification: first iteration whose total bound is strictly below the threshold, else the budget
    let mut tstar = n;
    let mut t = 1u64;
    while t <= n {
        let b = bound_of(t as usize);
        if fmax(b[0], b[1]) < r {
            tstar = t;
            break;
        }
        t += 1;
    }
    kani::cover!(n == 3 && tstar == 2, "stopped early at iteration 2 of 3");
    kani::cover!(n == 3 && tstar == 1, "stopped after the first iteration");
    kani::cover!(
        n == 3 && tstar == 3 && r > 0.0 && !(fmax(bound_of(3)[0], bound_of(3)[1]) < r),
        "positive threshold never reached"
    );
    kani::cover!(n == 0, "zero budget");
    kani::cover!(r.is_nan() && n == 2, "NaN threshold");
    kani::cover!(
        n == 2 && r == bound_of(1)[0] && bound_of(1)[1] < r,
        "bound exactly at the threshold"
    );
    unsafe {
        assert!(TRAVERSALS == tstar, "C09 stop: number of iterations run != first iteration below the threshold (or the budget)");
        assert!(TRAVERSALS <= n, "C09 stop: budget exceeded");
        assert!(
            !BAD_TRAVERSAL_ARGS,
            "C08 driver: root traversal not started at the root with unit reach"
        );
        assert!(ORDER_OK, "C08 driver: per-iteration order is not traversal, then update(t) of every infoset once");
        assert!(
            ADVANCES[0] == tstar && ADVANCES[1] == tstar && ADVANCES[2] == tstar,
            "C08 driver: some infoset not updated exactly once per iteration"
        );
    }
    if tstar == 0 {
        assert!(
            regs[0] == f64::INFINITY && regs[1] == f64::INFINITY,
            "C05 bounds: zero budget must return infinite bounds"
        );
    } else {
        let b = bound_of(tstar as usize);
        assert!(regs[0] == b[0] && regs[1] == b[1], "C09 bound: returned bounds are not those of the last iteration run (sum over the player's infosets)");
        assert!(
            regs[0] >= 0.0 && regs[1] >= 0.0 && regs[0] < f64::INFINITY && regs[1] < f64::INFINITY,
            "C05 bounds: bound negative or infinite after an iteration ran"
        );
        if tstar < n {
            assert!(
                fmax(regs[0], regs[1]) < r,
                "C09 stop: stopped early although the bound is not below the threshold"
            );
        }
    }
    // nothing accumulated by the stubs: every infoset must come back uniform (well formed), in table order
    assert!(
        strats[0].len() == 5 && strats[1].len() == 4,
        "C05 profile: returned strategy has the wrong layout"
    );
    assert!(
        strats[0][0] == 0.5 && strats[0][1] == 0.5 && strats[1][3] == 0.25,
        "C05 profile: untouched infoset is not uniform"
    );
    core::mem::forget(strats);
}

#[kani::proof]
#[kani::unwind(6)]
#[kani::stub(recurse_single, recurse_single_stub)]
#[kani::stub(<RegretInfoset as PlayerRecurse>::advance, advance_stub)]
fn c09_generic_single_driver_n3() {
    run(3);
}

#[kani::proof]
#[kani::unwind(7)]
#[kani::stub(recurse_single, recurse_single_stub)]
#[kani::stub(<RegretInfoset as PlayerRecurse>::advance, advance_stub)]
fn c09_generic_single_driver_n4() {
    run(4);
}

#[cfg(test)]
#[path = "/verif/.work/playback/driver.rs"]
mod pb;
