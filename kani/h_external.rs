// Kani harnesses compiled as `crate::solve::external::verif_kani` (child of src/solve/external.rs).
#![allow(dead_code, unused_imports, clippy::all)]

// NOTE: a stub-driven harness for the real `solve_external_single` loop (the twin of
// vanilla/driver.rs) is kept in external/xdriver.rs.disabled: CBMC's symbolic execution does not
// get through the function's internal `.collect::<Box<[_]>>()` constructions (simplifier blow-up on
// byte_extract over symbolic aggregates; > 15 min even for one infoset), so it is not part of any claim.

#[path = "/verif/kani/external/steps.rs"]
mod steps;
#[path = "/verif/kani/external/xthreads.rs"]
mod xthreads;
