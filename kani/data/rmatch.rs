//! C05 / C08 — RegretParams::regret_match
use super::super::*;
use super::models::*;
use portable_atomic::AtomicF64;

fn near(a: f64, b: f64, tol: f64) -> bool {
    let d = a - b;
    d <= tol && d >= -tol
}

fn small_int() -> f64 {
    let k: i8 = kani::any();
    kani::assume(k >= -8 && k <= 8);
    k as f64
}

fn bounded() -> f64 {
    let x: f64 = kani::any();
    kani::assume(x >= -1e300 && x <= 1e300);
    x
}

fn any_weight_special() -> f64 {
    let k: u8 = kani::any();
    kani::assume(k <= 3);
    match k {
        0 => f64::INFINITY,
        1 => f64::NEG_INFINITY,
        2 => 0.0,
        _ => 1.0,
    }
}

/// Some positive cumulative regret: the strategy is R+ / sum(R+) whatever the fallback weight
/// (small integers: exact sums, tolerance 1e-12). Plain f64 accumulators.
#[kani::proof]
#[kani::unwind(5)]
fn c08_regret_match_positive_ints() {
    let mut r: [f64; 3] = [small_int(), small_int(), small_int()];
    kani::assume(r[0] > 0.0 || r[1] > 0.0 || r[2] > 0.0);
    let r0 = r;
    let w = any_weight_special();
    let mut s = [0.25, 0.25, 0.5];
    RegretParams::new(1.5, 0.0, 2.0, w).regret_match(&mut r, &mut s);
    let mut tot = 0.0;
    for i in 0..3 {
        if r0[i] > 0.0 {
            tot += r0[i];
        }
    }
    kani::cover!(
        r0[0] > 0.0 && r0[1] < 0.0 && r0[2] > 0.0 && r0[0] != r0[2],
        "two unequal positive and one negative regret"
    );
    for i in 0..3 {
        let want = if r0[i] > 0.0 { r0[i] / tot } else { 0.0 };
        assert!(
            near(s[i], want, 1e-12),
            "C08 match: strategy is not proportional to positive cumulative regret"
        );
        assert!(
            r[i].to_bits() == r0[i].to_bits(),
            "C08 match: regret matching modified the cumulative regrets"
        );
    }
}

/// Same on the atomic accumulators used by the multi-threaded solvers.
#[kani::proof]
#[kani::unwind(5)]
fn c08_regret_match_positive_ints_atomic() {
    let r0: [f64; 2] = [small_int(), small_int()];
    kani::assume(r0[0] > 0.0 || r0[1] > 0.0);
    let mut r = [AtomicF64::new(r0[0]), AtomicF64::new(r0[1])];
    let mut s = [0.5, 0.5];
    RegretParams::vanilla().regret_match(&mut r[..], &mut s);
    let tot = (if r0[0] > 0.0 { r0[0] } else { 0.0 }) + (if r0[1] > 0.0 { r0[1] } else { 0.0 });
    kani::cover!(
        r0[0] > 0.0 && r0[1] > 0.0 && r0[0] != r0[1],
        "two unequal positive regrets"
    );
    for i in 0..2 {
        let want = if r0[i] > 0.0 { r0[i] / tot } else { 0.0 };
        assert!(
            near(s[i], want, 1e-12),
            "C08 match: strategy is not proportional to positive cumulative regret (atomic)"
        );
    }
}

/// No positive regret, weight in {+inf, -inf, 0}: never panics (ties, -0.0, equal regrets), result is
/// the indicator of a maximal / minimal action, or uniform. Regrets any f64 in [-1e300, 0].
#[kani::proof]
#[kani::unwind(5)]
fn c05_regret_match_fallback_full() {
    let mut r: [f64; 3] = [bounded(), bounded(), bounded()];
    kani::assume(r[0] <= 0.0 && r[1] <= 0.0 && r[2] <= 0.0);
    let r0 = r;
    let k: u8 = kani::any();
    kani::assume(k <= 2);
    let w = match k {
        0 => f64::INFINITY,
        1 => f64::NEG_INFINITY,
        _ => 0.0,
    };
    let mut s = [0.25, 0.25, 0.5];
    RegretParams::new(1.0, 1.0, 1.0, w).regret_match(&mut r, &mut s);
    kani::cover!(
        k == 0 && r0[0] == r0[1] && r0[1] == r0[2],
        "all regrets tie"
    );
    kani::cover!(k == 1 && r0[0] < r0[1], "worst action selected");
    kani::cover!(
        r0[0] == 0.0 && r0[0].is_sign_negative(),
        "negative zero regret"
    );
    let mut ones = 0;
    for i in 0..3 {
        assert!(
            s[i] >= 0.0 && s[i] <= 1.0,
            "C05 profile: regret-matched strategy entry outside [0,1] or NaN"
        );
    }
    if k == 2 {
        for i in 0..3 {
            assert!(
                near(s[i], 1.0 / 3.0, 1e-15),
                "C08 match: weight 0 must give the uniform strategy"
            );
        }
    } else {
        for i in 0..3 {
            if s[i] == 1.0 {
                ones += 1;
                for j in 0..3 {
                    if k == 0 {
                        assert!(
                            r0[i] >= r0[j],
                            "C08 match: weight +inf must pick a best action"
                        );
                    } else {
                        assert!(
                            r0[i] <= r0[j],
                            "C08 match: weight -inf must pick a worst action"
                        );
                    }
                }
            } else {
                assert!(
                    s[i] == 0.0,
                    "C08 match: infinite weight must give a pure strategy"
                );
            }
        }
        assert!(
            ones == 1,
            "C08 match: infinite weight must give a pure strategy"
        );
    }
}

/// No positive regret, finite non-zero weight (softmax; exp abstracted by its contract incl. the
/// overflow threshold). Regrets are non-positive integers down to -8, the weight ranges over
/// +-{1/4, 1, 100, 1000}: no NaN, a distribution with a positive entry, ordered like w*R.
fn softmax_weight() -> f64 {
    let k: u8 = kani::any();
    kani::assume(k <= 7);
    match k {
        0 => 0.25,
        1 => 1.0,
        2 => 100.0,
        3 => 1000.0,
        4 => -0.25,
        5 => -1.0,
        6 => -100.0,
        _ => -1000.0,
    }
}

#[kani::proof]
#[kani::unwind(4)]
#[kani::stub(f64::exp, exp_model)]
fn c05_regret_match_softmax() {
    let mut r: [f64; 2] = [small_int(), small_int()];
    kani::assume(r[0] <= 0.0 && r[1] <= 0.0);
    let r0 = r;
    let w = softmax_weight();
    let mut s = [0.25, 0.75];
    RegretParams::new(1.0, 1.0, 1.0, w).regret_match(&mut r, &mut s);
    kani::cover!(
        w == -1000.0 && r0[0] < r0[1],
        "large negative weight, regrets apart"
    );
    kani::cover!(
        w == 1000.0 && r0[0] < r0[1],
        "large positive weight, regrets apart"
    );
    kani::cover!(r0[0] == r0[1], "regrets equal");
    assert!(
        !s[0].is_nan() && !s[1].is_nan(),
        "C05 profile: softmax fallback produced NaN"
    );
    assert!(
        s[0] >= 0.0 && s[0] <= 1.0 && s[1] >= 0.0 && s[1] <= 1.0,
        "C05 profile: softmax fallback entry outside [0,1]"
    );
    assert!(
        s[0] > 0.0 || s[1] > 0.0,
        "C05 profile: softmax fallback has no positive entry"
    );
}

#[kani::proof]
#[kani::unwind(4)]
#[kani::stub(f64::exp, exp_model)]
fn c08_regret_match_softmax_order() {
    let mut r: [f64; 2] = [small_int(), small_int()];
    kani::assume(r[0] <= 0.0 && r[1] <= 0.0);
    let r0 = r;
    let w = softmax_weight();
    let mut s = [0.25, 0.75];
    RegretParams::new(1.0, 1.0, 1.0, w).regret_match(&mut r, &mut s);
    kani::cover!(
        w < 0.0 && r0[0] < r0[1],
        "negative weight prefers the worse action"
    );
    kani::cover!(
        w > 0.0 && r0[0] < r0[1],
        "positive weight prefers the better action"
    );
    kani::assume(!s[0].is_nan() && !s[1].is_nan());
    if w * r0[0] > w * r0[1] {
        assert!(
            s[0] >= s[1],
            "C08 match: softmax is not ordered like weight * regret"
        );
    }
    if w * r0[0] < w * r0[1] {
        assert!(
            s[0] <= s[1],
            "C08 match: softmax is not ordered like weight * regret"
        );
    }
    if r0[0] == r0[1] {
        assert!(
            s[0] == s[1],
            "C08 match: equal regrets must get equal softmax probability"
        );
    }
}

/// Positive branch over the full float range (|R| <= 1e300, two actions): entries in [0,1], no NaN.
#[kani::proof]
#[kani::unwind(4)]
fn c05_regret_match_positive_full2() {
    let mut r: [f64; 2] = [bounded(), bounded()];
    kani::assume(r[0] > 0.0 || r[1] > 0.0);
    let r0 = r;
    let mut s = [0.5, 0.5];
    RegretParams::vanilla().regret_match(&mut r, &mut s);
    kani::cover!(r0[0] > 1e299 && r0[1] > 1e299, "huge regrets");
    kani::cover!(r0[0] > 0.0 && r0[1] < 0.0, "one positive");
    for i in 0..2 {
        assert!(
            s[i] >= 0.0 && s[i] <= 1.0,
            "C05 profile: regret-matched strategy entry outside [0,1] or NaN"
        );
        if !(r0[i] > 0.0) {
            assert!(
                s[i] == 0.0,
                "C08 match: non-positive regret must get probability zero"
            );
        }
    }
    assert!(
        s[0] > 0.0 || s[1] > 0.0,
        "C05 profile: regret-matched strategy has no positive entry"
    );
}

/// C12 — scaling: multiplying every cumulative regret by 2 leaves the matched strategy unchanged
/// (bit for bit) and doubles the reported bound.
#[kani::proof]
#[kani::unwind(5)]
fn c12_scale_match_and_bound() {
    let r0: [f64; 3] = [small_int(), small_int(), small_int()];
    let w = any_weight_special();
    kani::assume(w != 1.0);
    let it: u8 = kani::any();
    kani::assume(it >= 1 && it <= 16);
    let p = RegretParams::new(1.5, 0.0, 2.0, w);
    let (mut a, mut b) = (r0, [2.0 * r0[0], 2.0 * r0[1], 2.0 * r0[2]]);
    let (mut sa, mut sb) = ([0.0; 3], [0.0; 3]);
    p.regret_match(&mut a, &mut sa);
    p.regret_match(&mut b, &mut sb);
    let ba = p.cum_regret(it as u64, &mut a);
    let bb = p.cum_regret(it as u64, &mut b);
    kani::cover!(
        r0[0] > 0.0 && r0[1] > 0.0 && r0[0] != r0[1],
        "two unequal positive regrets"
    );
    kani::cover!(
        r0[0] <= 0.0 && r0[1] <= 0.0 && r0[2] <= 0.0,
        "no positive regret"
    );
    for i in 0..3 {
        assert!(
            sa[i].to_bits() == sb[i].to_bits(),
            "C12 scale: multiplying payoffs (hence regrets) by c must not change the strategy"
        );
    }
    assert!(
        bb == 2.0 * ba,
        "C12 scale: multiplying payoffs by c must multiply the bound by c"
    );
}

#[cfg(test)]
#[path = "/verif/.work/playback/rmatch.rs"]
mod pb;
