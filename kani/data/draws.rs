//! H-draw: under cfg(kani) the two production sampling sites call these instead of thread_rng.
//! A draw is an arbitrary index below DRAW_BOUND (set by the harness); every draw is logged.
use super::super::*;

pub(crate) const LOG: usize = 6;
pub(crate) static mut DRAW_BOUND: usize = 2;
pub(crate) static mut DRAWS: usize = 0;
pub(crate) static mut DRAW_KIND: [u8; LOG] = [0; LOG];
pub(crate) static mut DRAW_WHO: [usize; LOG] = [0; LOG];
pub(crate) static mut DRAW_WEIGHTS: [usize; LOG] = [0; LOG];
pub(crate) static mut DRAW_RES: [usize; LOG] = [0; LOG];

/// kind 0: chance infoset (who = address of the SampledChance); kind 1: opponent infoset
/// (who = address of the CachedInfoset, weights = address of the strategy it is drawn from)
pub(crate) fn draw(kind: u8, who: usize, weights: usize, n: usize) -> usize {
    unsafe {
        let r: usize = kani::any();
        kani::assume(r < DRAW_BOUND);
        if n != 0 {
            kani::assume(r < n);
        }
        assert!(DRAWS < LOG, "harness: draw log full");
        DRAW_KIND[DRAWS] = kind;
        DRAW_WHO[DRAWS] = who;
        DRAW_WEIGHTS[DRAWS] = weights;
        DRAW_RES[DRAWS] = r;
        DRAWS += 1;
        r
    }
}

/// SampledChance state machine: from any cache state, sample returns the cached outcome without
/// drawing, or draws exactly once and caches; reset forgets.
#[kani::proof]
#[kani::unwind(6)]
fn c10_sampled_chance_cache() {
    let mut sc = SampledChance::new(&[0.25, 0.25, 0.5]);
    unsafe {
        DRAW_BOUND = 3;
    }
    let cached: usize = kani::any();
    kani::assume(cached <= 3);
    sc.cached = cached;
    let before = unsafe { DRAWS };
    let a = sc.sample();
    let mid = unsafe { DRAWS };
    let b = sc.sample();
    let after = unsafe { DRAWS };
    kani::cover!(cached == 0, "not drawn yet");
    kani::cover!(cached == 3, "outcome 2 cached");
    assert!(a < 3, "C10 chance: sampled outcome out of range");
    if cached == 0 {
        assert!(mid == before + 1, "C10 chance: first sample of a pass must draw exactly once");
        assert!(a == unsafe { DRAW_RES[before] }, "C10 chance: sample does not return the drawn outcome");
    } else {
        assert!(mid == before, "C10 chance: cached outcome must not be redrawn within a pass");
        assert!(a == cached - 1, "C10 chance: cached outcome not returned");
    }
    assert!(after == mid && b == a, "C10 chance: second sample in a pass differs or draws again");
    sc.reset();
    let c = sc.sample();
    assert!(unsafe { DRAWS } == after + 1, "C10 chance: no fresh draw after reset");
    assert!(c == unsafe { DRAW_RES[after] }, "C10 chance: sample after reset does not return the fresh draw");
    core::mem::forget(sc);
}

#[cfg(test)]
#[path = "/verif/.work/playback/draws.rs"]
mod pb;
