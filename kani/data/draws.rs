//! H-draw: under cfg(kani) the two production sampling sites call these instead of thread_rng.
//! A draw is an arbitrary index below DRAW_BOUND (set by the harness); every draw is logged.
use super::super::*;

pub(crate) const LOG: usize = 6;
pub(crate) static mut DRAW_BOUND: usize = 2;
pub(crate) static mut DRAWS: usize = 0;
pub(crate) static mut DRAW_KIND: [u8; LOG] = [0; LOG];
pub(crate) static mut DRAW_WHO: [usize; LOG] = [0; LOG];
pub(crate) static mut DRAW_WEIGHTS: [usize; LOG] = [0; LOG];
pub(crate) static mut DRAW_RES: [usize; LOG] = [0; LOG];

/// kind 0: chance infoset (who = address of the SampledChance); kind 1: opponent infoset
/// (who = address of the CachedInfoset, weights = address of the strategy it is drawn from)
pub(crate) fn draw(kind: u8, who: usize, weights: usize, n: usize) -> usize {
    unsafe {
        let r: usize = kani::any();
        kani::assume(r < DRAW_BOUND);
        if n != 0 {
            kani::assume(r < n);
        }
        assert!(DRAWS < LOG, "harness: draw log full");
        DRAW_KIND[DRAWS] = kind;
        DRAW_WHO[DRAWS] = who;
        DRAW_WEIGHTS[DRAWS] = weights;
        DRAW_RES[DRAWS] = r;
        DRAWS += 1;
        r
    }
}

/// SampledChance through its API only (new, sample, sample, reset, sample, sample): the first
/// sample of a pass draws exactly once and returns the drawn outcome, later samples of the pass
/// return the same outcome without drawing, reset starts a new pass with a fresh draw.
#[kani::proof]
#[kani::unwind(6)]
fn c10_sampled_chance_cache() {
    let mut sc = SampledChance::new(&[0.25, 0.25, 0.5]);
    unsafe {
        DRAW_BOUND = 3;
    }
    let d0 = unsafe { DRAWS };
    let a = sc.sample();
    let d1 = unsafe { DRAWS };
    let b = sc.sample();
    let b2 = sc.sample();
    let d2 = unsafe { DRAWS };
    kani::cover!(a == 0, "outcome 0 drawn");
    kani::cover!(a == 2, "outcome 2 drawn");
    assert!(a < 3, "C10 chance: sampled outcome out of range");
    assert!(
        d1 == d0 + 1,
        "C10 chance: first sample of a pass must draw exactly once"
    );
    assert!(
        a == unsafe { DRAW_RES[d0] },
        "C10 chance: sample does not return the drawn outcome"
    );
    assert!(
        d2 == d1 && b == a && b2 == a,
        "C10 chance: later samples in a pass differ from the first or draw again"
    );
    sc.reset();
    let c = sc.sample();
    let d3 = unsafe { DRAWS };
    let e = sc.sample();
    kani::cover!(c != a, "different outcome in the next pass");
    assert!(d3 == d2 + 1, "C10 chance: no fresh draw after reset");
    assert!(
        c == unsafe { DRAW_RES[d2] },
        "C10 chance: sample after reset does not return the fresh draw"
    );
    assert!(
        e == c && unsafe { DRAWS } == d3,
        "C10 chance: later samples in the second pass differ or draw again"
    );
    core::mem::forget(sc);
}

#[cfg(test)]
#[path = "/verif/.work/playback/draws.rs"]
mod pb;
