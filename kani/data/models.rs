//! Contract models for libm functions (Kani over-approximates exp/ln/powf as arbitrary values).
//! Each model is a *deterministic* uninterpreted function: a small table of (argument -> value)
//! pairs filled lazily with nondeterministic values that satisfy the stated contract.

const SLOTS: usize = 4;

pub(crate) struct Table {
    pub n: usize,
    pub arg: [f64; SLOTS],
    pub val: [f64; SLOTS],
}

impl Table {
    pub const fn new() -> Self {
        Table {
            n: 0,
            arg: [0.0; SLOTS],
            val: [0.0; SLOTS],
        }
    }
    pub(crate) fn find(&self, x: f64) -> Option<f64> {
        let mut i = 0;
        while i < self.n {
            if self.arg[i].to_bits() == x.to_bits() {
                return Some(self.val[i]);
            }
            i += 1;
        }
        None
    }
    pub(crate) fn push(&mut self, x: f64, v: f64) {
        assert!(self.n < SLOTS, "harness: libm model table full");
        self.arg[self.n] = x;
        self.val[self.n] = v;
        self.n += 1;
    }
}

pub(crate) static mut EXP: Table = Table::new();
pub(crate) static mut LN: Table = Table::new();
pub(crate) static mut LAE: Table = Table::new();
pub(crate) static mut POW: Table = Table::new();
pub(crate) static mut POW_BASE: f64 = 0.0;
pub(crate) static mut POW_EXP: f64 = 0.0;

/// exp: exp(0) = 1 exactly (also -0); x < 0 -> [0,1]; x > 0 -> [1,+inf]; NaN -> NaN; -inf -> 0;
/// +inf -> +inf; monotone w.r.t. every earlier query.
pub(crate) fn exp_model(x: f64) -> f64 {
    unsafe {
        if x.is_nan() {
            return f64::NAN;
        }
        if x == 0.0 {
            return 1.0;
        }
        if x == f64::NEG_INFINITY {
            return 0.0;
        }
        if x == f64::INFINITY {
            return f64::INFINITY;
        }
        let t = &mut *core::ptr::addr_of_mut!(EXP);
        if let Some(v) = t.find(x) {
            return v;
        }
        let v: f64 = kani::any();
        kani::assume(!v.is_nan() && v >= 0.0);
        if x < 0.0 {
            kani::assume(v <= 1.0);
        } else {
            kani::assume(v >= 1.0);
        }
        // overflow threshold of the real exp: finite up to 709, +inf from 710
        if x <= 709.0 {
            kani::assume(v <= 1e308);
        }
        if x >= 710.0 {
            kani::assume(v == f64::INFINITY);
        }
        if x <= -746.0 {
            kani::assume(v == 0.0);
        }
        if x >= -700.0 {
            kani::assume(v > 0.0);
        }
        let mut i = 0;
        while i < t.n {
            if t.arg[i] < x {
                kani::assume(t.val[i] <= v);
            } else {
                kani::assume(t.val[i] >= v);
            }
            i += 1;
        }
        t.push(x, v);
        v
    }
}

/// ln on positive finite arguments: ln(1) = 0; x > 1 -> (0, 745]; x < 1 -> [-745, 0); deterministic.
pub(crate) fn ln_model(x: f64) -> f64 {
    unsafe {
        if x.is_nan() || x < 0.0 {
            return f64::NAN;
        }
        if x == 0.0 {
            return f64::NEG_INFINITY;
        }
        if x == 1.0 {
            return 0.0;
        }
        if x == f64::INFINITY {
            return f64::INFINITY;
        }
        let t = &mut *core::ptr::addr_of_mut!(LN);
        if let Some(v) = t.find(x) {
            return v;
        }
        let v: f64 = kani::any();
        if x > 1.0 {
            kani::assume(v > 0.0 && v <= 745.0);
        } else {
            kani::assume(v < 0.0 && v >= -745.0);
        }
        t.push(x, v);
        v
    }
}

/// powf on positive bases: any non-negative value incl. +inf (overflow) and 0 (underflow); NaN-free
/// for non-NaN arguments. Used where the code under test must be robust to over/underflow.
pub(crate) fn powf_unbounded(b: f64, e: f64) -> f64 {
    if b.is_nan() || e.is_nan() {
        return f64::NAN;
    }
    let v: f64 = kani::any();
    kani::assume(!v.is_nan() && v >= 0.0);
    v
}

/// ln_1p on [0, +inf]: ln_1p(0) = 0, 0 <= ln_1p(x) <= x, at most 0.7 on [0,1], +inf only at +inf.
pub(crate) fn ln_1p_model(x: f64) -> f64 {
    if x.is_nan() || x < -1.0 {
        return f64::NAN;
    }
    if x == 0.0 {
        return 0.0;
    }
    if x == f64::INFINITY {
        return f64::INFINITY;
    }
    let v: f64 = kani::any();
    if x > 0.0 {
        kani::assume(v >= 0.0 && v <= x && v <= 745.0);
        if x <= 1.0 {
            kani::assume(v <= 0.7);
        }
    } else {
        kani::assume(v <= 0.0 && !v.is_nan());
    }
    v
}
