//! C02.1 / C05 / C08 — the discount, bound and normalisation kernels of RegretParams
use super::super::*;
use super::models::*;

fn any_nonnan() -> f64 {
    let x: f64 = kani::any();
    kani::assume(!x.is_nan());
    x
}

fn near(a: f64, b: f64, tol: f64) -> bool {
    let d = a - b;
    d <= tol && d >= -tol
}

fn small_int() -> f64 {
    let k: i8 = kani::any();
    kani::assume(k >= -8 && k <= 8);
    k as f64
}

/// cum_regret: sign structure for every non-NaN regret vector and every iteration count.
#[kani::proof]
#[kani::unwind(5)]
fn c02_cum_regret_structure_full() {
    let mut r: [f64; 3] = [any_nonnan(), any_nonnan(), any_nonnan()];
    let it: u64 = kani::any();
    kani::assume(it >= 1);
    let p = RegretParams::vanilla();
    let b = p.cum_regret(it, &mut r);
    let some_pos = r[0] > 0.0 || r[1] > 0.0 || r[2] > 0.0;
    kani::cover!(some_pos && r[1] < 0.0, "mixed signs");
    kani::cover!(!some_pos, "no positive regret");
    assert!(!b.is_nan(), "C02 bound: NaN");
    assert!(
        b >= 0.0,
        "C02 bound: negative per-infoset bound (positive part dropped)"
    );
    if !some_pos {
        assert!(
            b == 0.0,
            "C02 bound: non-zero bound without positive regret"
        );
    }
    let sizeable = r[0] >= 1e-200 || r[1] >= 1e-200 || r[2] >= 1e-200;
    if sizeable && it < (1u64 << 40) {
        assert!(
            b > 0.0,
            "C02 bound: zero bound although some regret is positive"
        );
    }
}

/// cum_regret: value 2*max(R,0)/t on small integers (exact arithmetic, tolerance 1e-12).
#[kani::proof]
#[kani::unwind(5)]
fn c02_cum_regret_value_ints() {
    let mut r: [f64; 3] = [small_int(), small_int(), small_int()];
    let it: u8 = kani::any();
    kani::assume(it >= 1 && it <= 100);
    let p = RegretParams::vanilla();
    let b = p.cum_regret(it as u64, &mut r);
    let mut m = 0.0;
    for i in 0..3 {
        if r[i] > m {
            m = r[i];
        }
    }
    kani::cover!(m == 3.0 && it == 7, "max 3 at iteration 7");
    assert!(
        near(b, 2.0 * m / it as f64, 1e-12),
        "C02 bound: per-infoset bound is not 2*max(R,0)/t"
    );
    // two-action slice too (n is not hard-wired)
    let mut r2: [f64; 2] = [r[0], r[1]];
    let b2 = p.cum_regret(it as u64, &mut r2[..]);
    let m2 = if r[0] > r[1] { r[0] } else { r[1] };
    let m2 = if m2 > 0.0 { m2 } else { 0.0 };
    assert!(
        near(b2, 2.0 * m2 / it as f64, 1e-12),
        "C02 bound: per-infoset bound is not 2*max(R,0)/t (2 actions)"
    );
}

/// gen_discount: exactly 0, 1/2, 1 at -inf, 0, +inf for every iteration.
#[kani::proof]
fn c08_gen_discount_special() {
    let it: u64 = kani::any();
    kani::cover!(it == 0, "iteration 0");
    kani::cover!(it == u64::MAX, "huge iteration");
    assert!(
        RegretParams::gen_discount(it, f64::NEG_INFINITY) == 0.0,
        "C08 discount: exponent -inf must give factor 0"
    );
    assert!(
        RegretParams::gen_discount(it, 0.0) == 0.5,
        "C08 discount: exponent 0 must give factor 1/2"
    );
    assert!(
        RegretParams::gen_discount(it, -0.0) == 0.5,
        "C08 discount: exponent -0 must give factor 1/2"
    );
    assert!(
        RegretParams::gen_discount(it, f64::INFINITY) == 1.0,
        "C08 discount: exponent +inf must give factor 1"
    );
}

/// gen_discount for finite non-zero exponents: never NaN, always in [0,1], whatever the magnitude of
/// exponent and iteration (libm by contract: ln finite, exp monotone with over/underflow, powf any
/// non-negative value incl. +inf, ln_1p in [0, min(x, 0.7)] on [0,1]).
#[kani::proof]
#[kani::stub(f64::ln, ln_model)]
#[kani::stub(f64::exp, exp_model)]
#[kani::stub(f64::powf, powf_unbounded)]
#[kani::stub(f64::ln_1p, ln_1p_model)]
fn c05_gen_discount_finite_total() {
    let a: f64 = kani::any();
    kani::assume(a.is_finite() && a != 0.0 && a >= -1000.0 && a <= 1000.0);
    let it: u64 = kani::any();
    kani::assume(it >= 1);
    let g = RegretParams::gen_discount(it, a);
    kani::cover!(a == 1000.0 && it > 1000, "large exponent, late iteration");
    kani::cover!(a < 0.0, "negative exponent");
    assert!(
        !g.is_nan(),
        "C05 discount: discount factor is NaN for a finite exponent"
    );
    assert!(
        g >= 0.0 && g <= 1.0,
        "C05 discount: discount factor outside [0,1]"
    );
}

/// discount_cum_regret with exponents in {-inf, 0, +inf}: positive entries scaled by the factor of
/// the positive exponent, negative ones by that of the negative exponent, zeros untouched.
#[kani::proof]
#[kani::unwind(5)]
fn c08_discount_regret_special() {
    let sel = |k: u8| -> (f64, f64) {
        match k {
            0 => (f64::NEG_INFINITY, 0.0),
            1 => (0.0, 0.5),
            _ => (f64::INFINITY, 1.0),
        }
    };
    let ka: u8 = kani::any();
    let kb: u8 = kani::any();
    kani::assume(ka <= 2 && kb <= 2);
    let (a, fa) = sel(ka);
    let (b, fb) = sel(kb);
    let r0: [f64; 3] = [any_nonnan(), any_nonnan(), any_nonnan()];
    kani::assume(r0[0].is_finite() && r0[1].is_finite() && r0[2].is_finite());
    let mut r = r0;
    let it: u64 = kani::any();
    let p = RegretParams::new(a, b, 0.0, 0.0);
    p.discount_cum_regret(it, &mut r);
    kani::cover!(
        ka == 2 && kb == 0 && r0[0] > 0.0 && r0[1] < 0.0,
        "CFR+ style: keep positive, forget negative"
    );
    kani::cover!(ka == 0 && kb == 2, "forget positive, keep negative");
    for i in 0..3 {
        let want = if r0[i] > 0.0 {
            r0[i] * fa
        } else if r0[i] < 0.0 {
            r0[i] * fb
        } else {
            r0[i]
        };
        assert!(
            r[i].to_bits() == want.to_bits() || (r[i] == 0.0 && want == 0.0),
            "C08 discount: regret not scaled by the factor of its sign's exponent"
        );
    }
}

/// discount_average_strat: gamma = 0 is the identity; gamma > 0 multiplies every entry by the same
/// (t/(t+1))^gamma (powf abstracted: the call must be made with base t/(t+1) and exponent gamma).
fn powf_record(b: f64, e: f64) -> f64 {
    unsafe {
        POW_BASE = b;
        POW_EXP = e;
        let t = &mut *core::ptr::addr_of_mut!(POW);
        if t.n == 0 {
            // the weight is some value in (0,1]; a small set keeps the products exact
            let q: u8 = kani::any();
            kani::assume(q >= 1 && q <= 8);
            t.push(b, q as f64 / 8.0);
        }
        t.val[0]
    }
}

#[kani::proof]
#[kani::unwind(5)]
#[kani::stub(f64::powf, powf_record)]
fn c08_discount_average_strat() {
    let g: f64 = kani::any();
    kani::assume(g >= 0.0 && g < f64::INFINITY);
    let it: u8 = kani::any();
    kani::assume(it >= 1 && it <= 64);
    let k0: u8 = kani::any();
    let k1: u8 = kani::any();
    kani::assume(k0 <= 16 && k1 <= 16);
    let s0: [f64; 2] = [k0 as f64 / 4.0, k1 as f64 / 4.0];
    let mut s = s0;
    let p = RegretParams::new(0.0, 0.0, g, 0.0);
    p.discount_average_strat(it as u64, &mut s);
    kani::cover!(g == 0.0, "gamma 0");
    kani::cover!(g == 2.0 && it == 3, "gamma 2 at iteration 3");
    if g == 0.0 {
        for i in 0..2 {
            assert!(
                s[i].to_bits() == s0[i].to_bits(),
                "C08 average: gamma 0 must not discount the average strategy"
            );
        }
    } else {
        unsafe {
            let t = it as f64;
            assert!(
                POW.n == 1,
                "C08 average: the weight (t/(t+1))^gamma was not computed"
            );
            assert!(
                near(POW_BASE, t / (t + 1.0), 1e-12),
                "C08 average: discount base is not t/(t+1)"
            );
            assert!(POW_EXP == g, "C08 average: discount exponent is not gamma");
            let k = POW.val[0];
            for i in 0..2 {
                assert!(
                    near(s[i], s0[i] * k, 1e-12),
                    "C08 average: entries not all scaled by the same weight"
                );
            }
        }
    }
}

/// avg_strat: every non-negative accumulated vector up to 1e300 normalises to a distribution;
/// nothing accumulated gives exactly uniform.
fn special_nonneg() -> f64 {
    let k: u8 = kani::any();
    kani::assume(k <= 6);
    match k {
        0 => 0.0,
        1 => 5e-324,
        2 => 1e-300,
        3 => 0.1,
        4 => 1.0,
        5 => 3.0,
        _ => 1e300,
    }
}

#[kani::proof]
#[kani::unwind(5)]
fn c05_avg_strat_full() {
    // two entries over all of [0, 1e300]
    let mut s: [f64; 2] = [kani::any(), kani::any()];
    kani::assume(s[0] >= 0.0 && s[0] <= 1e300 && s[1] >= 0.0 && s[1] <= 1e300);
    let s0 = s;
    avg_strat(&mut s);
    let zero = s0[0] == 0.0 && s0[1] == 0.0;
    kani::cover!(zero, "nothing accumulated");
    kani::cover!(s0[0] > 0.0 && s0[1] == 0.0, "partly accumulated");
    for i in 0..2 {
        assert!(
            s[i] >= 0.0 && s[i] <= 1.0,
            "C05 profile: average strategy entry outside [0,1] or NaN"
        );
    }
    assert!(
        s[0] > 0.0 || s[1] > 0.0,
        "C05 profile: average strategy has no positive entry"
    );
    if zero {
        assert!(
            s[0] == 0.5 && s[1] == 0.5,
            "C05 profile: empty accumulation must give the uniform strategy"
        );
    }
}

/// three entries on a lattice of extreme magnitudes {0, 5e-324, 1e-300, 0.1, 1, 3, 1e300}
#[kani::proof]
#[kani::unwind(5)]
fn c05_avg_strat_extremes3() {
    let mut s: [f64; 3] = [special_nonneg(), special_nonneg(), special_nonneg()];
    let s0 = s;
    avg_strat(&mut s);
    let zero = s0[0] == 0.0 && s0[1] == 0.0 && s0[2] == 0.0;
    kani::cover!(zero, "nothing accumulated");
    kani::cover!(
        s0[0] == 1e300 && s0[1] == 1e300 && s0[2] == 5e-324,
        "huge and tiny together"
    );
    let mut some = false;
    for i in 0..3 {
        assert!(
            s[i] >= 0.0 && s[i] <= 1.0,
            "C05 profile: average strategy entry outside [0,1] or NaN"
        );
        if s[i] > 0.0 {
            some = true;
        }
    }
    assert!(some, "C05 profile: average strategy has no positive entry");
    if zero {
        for i in 0..3 {
            assert!(
                near(s[i], 1.0 / 3.0, 1e-15),
                "C05 profile: empty accumulation must give the uniform strategy"
            );
        }
    }
}

/// avg_strat on the dyadic grid: value c_i / sum and total one (1e-12).
#[kani::proof]
#[kani::unwind(5)]
fn c05_avg_strat_values() {
    let k: [u8; 3] = [kani::any(), kani::any(), kani::any()];
    kani::assume(k[0] <= 8 && k[1] <= 8 && k[2] <= 8);
    let mut s = [k[0] as f64 / 4.0, k[1] as f64 / 4.0, k[2] as f64 / 4.0];
    avg_strat(&mut s);
    let tot = k[0] as u32 + k[1] as u32 + k[2] as u32;
    kani::cover!(tot == 7, "sum not a power of two");
    if tot > 0 {
        for i in 0..3 {
            assert!(
                near(s[i], k[i] as f64 / tot as f64, 1e-12),
                "C05 profile: average strategy is not c_i / sum"
            );
        }
    }
    assert!(
        near(s[0] + s[1] + s[2], 1.0, 1e-12),
        "C05 profile: average strategy does not sum to one"
    );
}

/// RegretParams::new panics exactly on the documented inputs.
#[kani::proof]
fn c05_params_new_accepts() {
    let a: f64 = kani::any();
    let b: f64 = kani::any();
    let g: f64 = kani::any();
    let w: f64 = kani::any();
    kani::assume(!a.is_nan() && !b.is_nan() && !w.is_nan() && g >= 0.0 && g != f64::INFINITY);
    kani::cover!(
        a == f64::NEG_INFINITY && w == f64::NEG_INFINITY,
        "infinite exponents"
    );
    let p = RegretParams::new(a, b, g, w);
    assert!(
        p.pos_regret.to_bits() == a.to_bits()
            && p.neg_regret.to_bits() == b.to_bits()
            && p.strat.to_bits() == g.to_bits()
            && p.no_positive.to_bits() == w.to_bits(),
        "C08 params: constructor does not store (alpha, beta, gamma, weight) in this order"
    );
}

#[kani::proof]
fn c05_params_new_rejects() {
    let a: f64 = kani::any();
    let b: f64 = kani::any();
    let g: f64 = kani::any();
    let w: f64 = kani::any();
    kani::assume(a.is_nan() || b.is_nan() || w.is_nan() || !(g >= 0.0) || g == f64::INFINITY);
    kani::cover!(g.is_nan(), "NaN gamma");
    kani::cover!(g == f64::INFINITY, "infinite gamma");
    kani::cover!(
        w.is_nan() && !a.is_nan() && !b.is_nan() && g == 1.0,
        "NaN weight only"
    );
    let _ = RegretParams::new(a, b, g, w);
    assert!(
        false,
        "C05 params: constructor accepted a documented-invalid tuple"
    );
}

/// The five presets and Default denote the documented tuples.
#[kani::proof]
fn c08_presets() {
    let inf = f64::INFINITY;
    let eq = |p: RegretParams, a: f64, b: f64, g: f64, w: f64| {
        p.pos_regret == a && p.neg_regret == b && p.strat == g && p.no_positive == w
    };
    kani::cover!(true, "reached");
    assert!(
        eq(RegretParams::vanilla(), inf, inf, 0.0, 0.0),
        "C08 presets: vanilla is not (inf, inf, 0, 0)"
    );
    assert!(
        eq(RegretParams::lcfr(), 1.0, 1.0, 1.0, inf),
        "C08 presets: lcfr is not (1, 1, 1, inf)"
    );
    assert!(
        eq(RegretParams::cfr_plus(), inf, -inf, 2.0, inf),
        "C08 presets: cfr_plus is not (inf, -inf, 2, inf)"
    );
    assert!(
        eq(RegretParams::dcfr(), 1.5, 0.0, 2.0, inf),
        "C08 presets: dcfr is not (1.5, 0, 2, inf)"
    );
    assert!(
        eq(RegretParams::dcfr_prune(), 1.5, 0.5, 2.0, inf),
        "C08 presets: dcfr_prune is not (1.5, 0.5, 2, inf)"
    );
    assert!(
        RegretParams::default() == RegretParams::dcfr(),
        "C08 presets: default is not dcfr"
    );
}

#[cfg(test)]
#[path = "/verif/.work/playback/kernels.rs"]
mod pb;
