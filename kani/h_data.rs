// harnesses for this module (filled in below)
#![allow(dead_code, unused_imports, clippy::all)]
