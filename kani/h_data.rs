// Kani harnesses compiled as `crate::solve::data::verif_kani` (child of src/solve/data.rs).
#![allow(dead_code, unused_imports, clippy::all)]

#[path = "/verif/kani/data/draws.rs"]
pub(crate) mod draws;
#[path = "/verif/kani/data/kernels.rs"]
mod kernels;
#[path = "/verif/kani/data/models.rs"]
pub(crate) mod models;
#[path = "/verif/kani/data/rmatch.rs"]
mod rmatch;
