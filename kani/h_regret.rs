// Kani harnesses for src/regret.rs (module `crate::regret::verif_kani`).
// NOTE: none registered. `regret::expected` / `optimal_deviations` walk the tree with explicit
// Vec stacks; CBMC's symbolic execution does not get through even `expected` on a 7-node tree
// within 10 minutes (symbolic Vec lengths: every pop/push becomes a case split over all slots), so
// property C01 is listed as not applicable. The probe harness is kept in regret_probe.rs.disabled.
#![allow(dead_code, unused_imports, clippy::all)]
