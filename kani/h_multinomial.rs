// Kani harnesses compiled as `crate::solve::multinomial::verif_kani`.
#![allow(dead_code, unused_imports, clippy::all)]
use super::*;
use rand::RngCore;
use rand_distr::Distribution;

/// A random number generator whose next 64-bit word is a symbolic value.
struct SymRng {
    word: u64,
    calls: u32,
}

impl RngCore for SymRng {
    fn next_u32(&mut self) -> u32 {
        self.calls += 1;
        (self.word >> 32) as u32
    }
    fn next_u64(&mut self) -> u64 {
        self.calls += 1;
        self.word
    }
    fn fill_bytes(&mut self, dest: &mut [u8]) {
        self.calls += 1;
        for b in dest.iter_mut() {
            *b = self.word as u8;
        }
    }
    fn try_fill_bytes(&mut self, dest: &mut [u8]) -> Result<(), rand::Error> {
        self.fill_bytes(dest);
        Ok(())
    }
}

/// Inverse-CDF specification for all 2^64 generator words and all weight vectors k/8 (sum 1, 2..4
/// entries, zeros allowed): with u = (word >> 11) * 2^-53 the sampler returns k iff
/// c_k < u <= c_{k+1} (u = 0 falls in the first interval); exactly one variate is consumed.
#[kani::proof]
#[kani::unwind(6)]
fn c10_multinomial_inverse_cdf() {
    let n: usize = kani::any();
    kani::assume(n >= 2 && n <= 4);
    let k: [u8; 4] = [kani::any(), kani::any(), kani::any(), kani::any()];
    kani::assume(k[0] <= 8 && k[1] <= 8 && k[2] <= 8 && k[3] <= 8);
    let mut tot: u32 = 0;
    for i in 0..4 {
        if i >= n {
            kani::assume(k[i] == 0);
        }
        tot += k[i] as u32;
    }
    kani::assume(tot == 8);
    let probs = [
        k[0] as f64 / 8.0,
        k[1] as f64 / 8.0,
        k[2] as f64 / 8.0,
        k[3] as f64 / 8.0,
    ];
    let word: u64 = kani::any();
    let mut rng = SymRng { word, calls: 0 };
    let res = Multinomial::new(&probs[..n]).sample(&mut rng);
    // integer oracle: u = m / 2^53, c_j = C_j / 8  =>  u > c_j  <=>  m > C_j * 2^50
    let m = word >> 11;
    let mut cum: u64 = 0;
    let mut want = 0usize;
    for j in 0..3 {
        if j + 1 < n {
            cum += k[j] as u64;
            if m > cum << 50 {
                want += 1;
            }
        }
    }
    kani::cover!(n == 4 && want == 3, "last of four outcomes");
    kani::cover!(n == 3 && want == 1 && k[0] > 0, "middle outcome");
    kani::cover!(
        m == (k[0] as u64) << 50 && k[0] > 0 && k[0] < 8,
        "variate exactly on the first boundary"
    );
    kani::cover!(k[0] == 0 && want == 1, "zero-weight first outcome skipped");
    assert!(res < n, "C10 sampler: index out of range");
    assert!(
        res == want,
        "C10 sampler: index is not the cumulative-probability interval containing the variate"
    );
    assert!(
        rng.calls == 1,
        "C10 sampler: must consume exactly one uniform variate"
    );
}

#[cfg(test)]
#[path = "/verif/.work/playback/h_multinomial.rs"]
mod pb;
