//! C02 / C01 accessors — RegretBound and StrategiesInfo: total = larger of the two players,
//! per-player values indexed by player, player two's utility is the negation.
use crate::*;

#[kani::proof]
fn c02_bound_and_info_accessors() {
    let a: f64 = kani::any();
    let b: f64 = kani::any();
    kani::assume(a >= 0.0 && b >= 0.0); // bounds and regrets are non-negative, possibly +inf
    let rb = RegretBound::new([a, b]);
    kani::cover!(a > b, "player one's bound larger");
    kani::cover!(a == f64::INFINITY && b == f64::INFINITY, "no iteration ran");
    assert!(
        rb.player_regret_bound(PlayerNum::One) == a && rb.player_regret_bound(PlayerNum::Two) == b,
        "C02 accessors: per-player bound returned for the wrong player"
    );
    let tot = rb.regret_bound();
    assert!(
        tot >= a && tot >= b && (tot == a || tot == b),
        "C02 accessors: total bound is not the larger of the two per-player bounds"
    );
    let u: f64 = kani::any();
    kani::assume(!u.is_nan());
    let info = StrategiesInfo {
        util: u,
        regrets: [a, b],
    };
    assert!(
        info.player_regret(PlayerNum::One) == a && info.player_regret(PlayerNum::Two) == b,
        "C01 accessors: per-player regret returned for the wrong player"
    );
    let r = info.regret();
    assert!(
        r >= a && r >= b && (r == a || r == b),
        "C01 accessors: total regret is not the larger of the two player regrets"
    );
    assert!(
        info.player_utility(PlayerNum::One) == u,
        "C01 accessors: player one's utility"
    );
    assert!(
        info.player_utility(PlayerNum::Two) == -u,
        "C01 accessors: player two's utility is not the negation of player one's"
    );
}

#[cfg(test)]
#[path = "/verif/.work/playback/c02.rs"]
mod pb;
