//! Helpers to build crate-private values directly (no constructor, no hashing).
use crate::*;

/// A game whose tree is a single terminal; only the infoset tables matter
/// (named view, truncate, distance, import never look at the tree).
pub(crate) fn table_game(multi: [&[(u8, &[u8])]; 2], singles: [&[(u8, u8)]; 2]) -> Game<u8, u8> {
    let mk = |m: &[(u8, &[u8])]| -> Box<[PlayerInfosetData<u8, u8>]> {
        m.iter()
            .map(|(name, acts)| PlayerInfosetData {
                infoset: *name,
                actions: acts.to_vec().into_boxed_slice(),
                prev_infoset: None,
            })
            .collect::<Vec<_>>()
            .into_boxed_slice()
    };
    Game {
        chance_infosets: Vec::new().into_boxed_slice(),
        player_infosets: [mk(multi[0]), mk(multi[1])],
        single_infosets: [
            singles[0].to_vec().into_boxed_slice(),
            singles[1].to_vec().into_boxed_slice(),
        ],
        root: Node::Terminal(0.0),
    }
}

pub(crate) fn any_prob() -> f64 {
    let p: f64 = kani::any();
    kani::assume(p >= 0.0 && p <= 1.0);
    p
}

/// k/den with k symbolic in 0..=den (exactly representable when den is a power of two)
pub(crate) fn any_dyadic(den: u8) -> f64 {
    let k: u8 = kani::any();
    kani::assume(k <= den);
    k as f64 / den as f64
}
