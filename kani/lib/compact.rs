//! C11 — insertion-ordered index allocation of the infoset tables (src/compact.rs), API only:
//! the real Builder / VacantEntry / OccupiedEntry code over the container model. (The same harness for
//! OptBuilder did not finish in 400 s even with two symbolic lookups; OptBuilder::entry is covered by the
//! E2 helper obligations in mirsmt/ctor_check.py instead.)
use crate::compact::{Builder, Entry};

/// Three lookups with symbolic keys: a key seen for the first time is vacant and gets the number of
/// distinct keys seen before as its index; a key seen again is occupied and returns the index and the
/// value of its FIRST insertion; `contains` agrees; iteration returns the first values in index order.
#[kani::proof]
#[kani::unwind(5)]
fn c11_builder_index_allocation() {
    let keys: [u8; 3] = [kani::any(), kani::any(), kani::any()];
    kani::assume(keys[0] < 3 && keys[1] < 3 && keys[2] < 3);
    let vals: [u8; 3] = [10, 20, 30];
    let mut b: Builder<u8, u8> = Builder::new();
    let mut first_idx: [Option<usize>; 3] = [None; 3]; // by key
    let mut first_val: [u8; 3] = [0; 3];
    let mut order: [u8; 3] = [255; 3]; // key at each index
    let mut distinct = 0usize;
    kani::cover!(
        keys[0] == keys[2] && keys[0] != keys[1],
        "a key revisited after another one"
    );
    kani::cover!(
        keys[0] != keys[1] && keys[1] != keys[2] && keys[0] != keys[2],
        "three distinct keys"
    );
    let mut i = 0;
    while i < 3 {
        let k = keys[i];
        assert!(
            b.contains(&k) == first_idx[k as usize].is_some(),
            "C11 table: contains() is true exactly for keys inserted before"
        );
        match b.entry(k) {
            Entry::Vacant(e) => {
                assert!(
                    first_idx[k as usize].is_none(),
                    "C11 table: a key inserted before is found again (not vacant)"
                );
                let ind = e.insert(vals[i]);
                assert!(
                    ind == distinct,
                    "C11 table: a new key gets the number of keys inserted before as its index"
                );
                first_idx[k as usize] = Some(ind);
                first_val[k as usize] = vals[i];
                order[ind] = k;
                distinct += 1;
            }
            Entry::Occupied(e) => {
                let (ind, v) = e.get();
                assert!(
                    first_idx[k as usize] == Some(ind),
                    "C11 table: a revisited key returns the index of its first insertion"
                );
                assert!(
                    *v == first_val[k as usize],
                    "C11 table: a revisited key returns the value stored at its first insertion"
                );
            }
        }
        i += 1;
    }
    let mut n = 0usize;
    for (k, v) in b {
        assert!(
            n < distinct && k == order[n] && v == first_val[k as usize],
            "C11 table: iteration yields (key, first value) in index order"
        );
        n += 1;
    }
    assert!(
        n == distinct,
        "C11 table: iteration yields every inserted key once"
    );
}
