//! C14 — strategy import: both implementations against the documented contract and each other.
use super::util::*;
use crate::*;

const MULTI: u8 = 10; // multi-action infoset, actions 0 and 1
const SINGLE: u8 = 20; // single-action infoset, action 7

fn tables() -> ([PlayerInfosetData<u8, u8>; 1], [(u8, u8); 1]) {
    (
        [PlayerInfosetData {
            infoset: MULTI,
            actions: Box::new([0u8, 1]) as Box<[u8]>,
            prev_infoset: None,
        }],
        [(SINGLE, 7)],
    )
}

#[derive(Clone, Copy)]
struct Entry {
    label: u8,
    n: usize,
    acts: [u8; 2],
    w: [f64; 2],
}

fn any_entry() -> Entry {
    let k: u8 = kani::any();
    kani::assume(k <= 2);
    let label = match k {
        0 => MULTI,
        1 => SINGLE,
        _ => 30,
    };
    let n: usize = kani::any();
    kani::assume(n <= 2);
    let pick = || -> u8 {
        let a: u8 = kani::any();
        kani::assume(a <= 3);
        match a {
            0 => 0,
            1 => 1,
            2 => 7,
            _ => 9,
        }
    };
    // weights from a lattice of special values (3 bits each) instead of all of f64
    let wt = || -> f64 {
        let k: u8 = kani::any();
        kani::assume(k <= 7);
        match k {
            0 => -1.0,
            1 => -0.0,
            2 => 0.0,
            3 => 1.0,
            4 => 3.0,
            5 => 1e308,
            6 => f64::INFINITY,
            _ => f64::NAN,
        }
    };
    Entry {
        label,
        n,
        acts: [pick(), pick()],
        w: [wt(), wt()],
    }
}

fn valid_w(w: f64) -> bool {
    w >= 0.0 && w.is_finite()
}

/// rules violated by the input, from the documented contract
struct Verdict {
    bad_infoset: bool,
    bad_action: bool,
    bad_prob: bool,
    uninit: bool,
    dense: [f64; 2],
}

fn contract(es: &[Entry]) -> Verdict {
    let mut v = Verdict {
        bad_infoset: false,
        bad_action: false,
        bad_prob: false,
        uninit: false,
        dense: [0.0, 0.0],
    };
    let mut single_seen = false;
    for e in es {
        if e.label != MULTI && e.label != SINGLE {
            v.bad_infoset = true;
            continue;
        }
        for j in 0..e.n {
            let legal = if e.label == MULTI {
                e.acts[j] <= 1
            } else {
                e.acts[j] == 7
            };
            if !legal {
                v.bad_action = true;
            }
            if !valid_w(e.w[j]) {
                v.bad_prob = true;
            }
            if legal && valid_w(e.w[j]) {
                if e.label == MULTI {
                    v.dense[e.acts[j] as usize] = e.w[j]; // last write wins
                } else {
                    single_seen = true;
                }
            }
        }
    }
    if !(v.dense[0] > 0.0 || v.dense[1] > 0.0) || !single_seen {
        v.uninit = true;
    }
    v
}

fn run_slow(es: &[Entry]) -> Result<Box<[f64]>, StratError> {
    let (infos, singles) = tables();
    let r = Game::<u8, u8>::strat_into_box_slow(
        es.iter()
            .map(|e| (e.label, (0..e.n).map(move |j| (e.acts[j], e.w[j])))),
        &infos[..],
        &singles[..],
    );
    core::mem::forget(infos);
    r
}

fn run_hash(es: &[Entry]) -> Result<Box<[f64]>, StratError> {
    let (infos, singles) = tables();
    let r = Game::<u8, u8>::strat_into_box(
        es.iter()
            .map(|e| (e.label, (0..e.n).map(move |j| (e.acts[j], e.w[j])))),
        &infos[..],
        &singles[..],
    );
    core::mem::forget(infos);
    r
}

fn kind(e: &StratError) -> u8 {
    match e {
        StratError::InvalidInfoset => 0,
        StratError::InvalidAction => 1,
        StratError::InvalidProbability => 2,
        StratError::UninitializedInfoset => 3,
        #[allow(unreachable_patterns)]
        _ => 9,
    }
}

fn check_against_contract(r: &Result<Box<[f64]>, StratError>, v: &Verdict, what: &'static str) {
    let any_violation = v.bad_infoset || v.bad_action || v.bad_prob || v.uninit;
    match r {
        Ok(d) => {
            assert!(
                !any_violation,
                "C14 accept: import succeeded although a documented rule is violated"
            );
            assert!(d.len() == 2, "C14 value: wrong layout");
            let total = v.dense[0] + v.dense[1];
            if total < f64::INFINITY {
                for i in 0..2 {
                    let want = v.dense[i] / total;
                    assert!(d[i] == want || (d[i] - want <= 1e-12 && want - d[i] <= 1e-12), "C14 value: imported probability is not weight / infoset total (last entry wins, unspecified = 0)");
                }
            }
            assert!(
                !d[0].is_nan()
                    && !d[1].is_nan()
                    && d[0] >= 0.0
                    && d[1] >= 0.0
                    && (d[0] > 0.0 || d[1] > 0.0),
                "C14 profile: accepted import is not a distribution (no positive entry or NaN)"
            );
        }
        Err(e) => {
            assert!(
                any_violation,
                "C14 reject: import failed although every documented rule holds"
            );
            let k = kind(e);
            let named = (k == 0 && v.bad_infoset)
                || (k == 1 && v.bad_action)
                || (k == 2 && v.bad_prob)
                || (k == 3 && v.uninit);
            assert!(
                named,
                "C14 error-kind: the error returned does not name a rule the input violates"
            );
        }
    }
    let _ = what;
}

/// Scan-based import, two entries with up to two (action, weight) pairs each; weights over all of f64.
#[kani::proof]
#[kani::unwind(3)]
fn c14_import_slow_contract() {
    let mut es = [any_entry(), any_entry()];
    kani::assume(es[1].n <= 1);
    let v = contract(&es);
    let r = run_slow(&es);
    kani::cover!(
        r.is_ok() && es[0].label == SINGLE && es[1].label == MULTI,
        "valid import, single-action infoset first"
    );
    kani::cover!(
        matches!(r, Err(StratError::UninitializedInfoset))
            && !v.bad_infoset
            && !v.bad_action
            && !v.bad_prob,
        "only an uncovered infoset"
    );
    kani::cover!(
        es[0].label == MULTI && es[1].label == MULTI && es[0].n == 2 && es[1].n == 1,
        "infoset listed twice"
    );
    check_against_contract(&r, &v, "slow");
    core::mem::forget(r);
}

/// Hash-based import (container model), same inputs, same contract.
#[kani::proof]
#[kani::unwind(3)]
fn c14_import_hash_contract() {
    let mut es = [any_entry(), any_entry()];
    kani::assume(es[1].n <= 1);
    let v = contract(&es);
    let r = run_hash(&es);
    kani::cover!(r.is_ok(), "valid import");
    kani::cover!(
        matches!(r, Err(StratError::InvalidAction)),
        "illegal action"
    );
    check_against_contract(&r, &v, "hash");
    core::mem::forget(r);
}

/// The two implementations agree on every input: same error kind or bit-identical vectors.
#[kani::proof]
#[kani::unwind(3)]
fn c14_import_paths_agree() {
    let mut es = [any_entry(), any_entry()];
    kani::assume(es[1].n <= 1);
    let a = run_slow(&es);
    let b = run_hash(&es);
    kani::cover!(a.is_ok(), "both accept");
    kani::cover!(
        matches!(a, Err(StratError::InvalidProbability)),
        "invalid weight"
    );
    match (&a, &b) {
        (Ok(x), Ok(y)) => {
            assert!(x.len() == y.len(), "C14 agree: layouts differ");
            for i in 0..2 {
                assert!(
                    x[i].to_bits() == y[i].to_bits(),
                    "C14 agree: the two import functions return different probabilities"
                );
            }
        }
        (Err(x), Err(y)) => assert!(
            kind(x) == kind(y),
            "C14 agree: the two import functions return different error kinds"
        ),
        _ => assert!(
            false,
            "C14 agree: one import function accepts what the other rejects"
        ),
    }
    core::mem::forget(a);
    core::mem::forget(b);
}

/// Two multi-action infosets: each weight lands in the slot of its own infoset and action, in both
/// import functions (layout of the dense vector), and they agree bit for bit.
#[kani::proof]
#[kani::unwind(3)]
fn c14_import_two_infosets_layout() {
    let infos = [
        PlayerInfosetData {
            infoset: 10u8,
            actions: Box::new([0u8, 1]) as Box<[u8]>,
            prev_infoset: None,
        },
        PlayerInfosetData {
            infoset: 11u8,
            actions: Box::new([0u8, 1]) as Box<[u8]>,
            prev_infoset: Some(0),
        },
    ];
    let singles: [(u8, u8); 0] = [];
    let act = |k: bool| if k { 1u8 } else { 0u8 };
    let (a0, a1): (bool, bool) = (kani::any(), kani::any());
    let swap: bool = kani::any();
    let (l0, l1) = if swap { (11u8, 10u8) } else { (10u8, 11u8) };
    let es = [(l0, [(act(a0), 1.0f64)]), (l1, [(act(a1), 3.0f64)])];
    let slow = Game::<u8, u8>::strat_into_box_slow(
        es.iter()
            .map(|(l, ps)| (*l, ps.iter().map(|(a, w)| (*a, *w)))),
        &infos[..],
        &singles[..],
    );
    let hash = Game::<u8, u8>::strat_into_box(
        es.iter()
            .map(|(l, ps)| (*l, ps.iter().map(|(a, w)| (*a, *w)))),
        &infos[..],
        &singles[..],
    );
    kani::cover!(swap && a0 && !a1, "second infoset listed first");
    for r in [&slow, &hash] {
        match r {
            Ok(d) => {
                assert!(d.len() == 4, "C14 value: wrong layout");
                macro_rules! slot {
                    ($i:expr) => {
                        let (lab, ac) = (10 + ($i / 2) as u8, ($i % 2) as u8);
                        let hit = (l0 == lab && act(a0) == ac) || (l1 == lab && act(a1) == ac);
                        assert!(
                            d[$i] == if hit { 1.0 } else { 0.0 },
                            "C14 value: a weight landed in the slot of another infoset or action"
                        );
                    };
                }
                slot!(0);
                slot!(1);
                slot!(2);
                slot!(3);
            }
            Err(_) => assert!(false, "C14 reject: valid import over two infosets rejected"),
        }
    }
    core::mem::forget(slow);
    core::mem::forget(hash);
    core::mem::forget(infos);
}

#[cfg(test)]
#[path = "/verif/.work/playback/c14.rs"]
mod pb;
