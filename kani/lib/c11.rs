//! C11 — Game::from_root / init_recurse against an independent reading of the documented contract.
//! Input trees are arenas of plain descriptors turned into nodes lazily (no owning recursion in the
//! harness type); std/indexmap containers are the association-list model.
use super::util::*;
use crate::*;

#[derive(Clone, Copy)]
pub(crate) struct Desc {
    pub kind: u8, // 0 terminal, 1 chance, 2 player
    pub n: usize, // number of children actually listed (0..=2)
    pub kids: [usize; 2],
    pub two: bool,         // player two?
    pub info: u8,          // player infoset label
    pub cinfo: Option<u8>, // chance infoset label
    pub acts: [u8; 2],     // action labels
    pub w: [f64; 2],       // chance weights
    pub pay: f64,
}

pub(crate) const TERM: Desc = Desc {
    kind: 0,
    n: 0,
    kids: [0, 0],
    two: false,
    info: 0,
    cinfo: None,
    acts: [0, 1],
    w: [1.0, 1.0],
    pay: 1.0,
};

#[derive(Clone, Copy)]
pub(crate) struct A<'a>(pub &'a [Desc], pub usize);

pub(crate) struct Outs<'a> {
    a: A<'a>,
    i: usize,
}
pub(crate) struct Acts<'a> {
    a: A<'a>,
    i: usize,
}

impl<'a> Iterator for Outs<'a> {
    type Item = (f64, A<'a>);
    fn next(&mut self) -> Option<Self::Item> {
        let d = &self.a.0[self.a.1];
        if self.i < d.n {
            let r = (d.w[self.i], A(self.a.0, d.kids[self.i]));
            self.i += 1;
            Some(r)
        } else {
            None
        }
    }
}

impl<'a> Iterator for Acts<'a> {
    type Item = (u8, A<'a>);
    fn next(&mut self) -> Option<Self::Item> {
        let d = &self.a.0[self.a.1];
        if self.i < d.n {
            let r = (d.acts[self.i], A(self.a.0, d.kids[self.i]));
            self.i += 1;
            Some(r)
        } else {
            None
        }
    }
}

impl<'a> IntoGameNode for A<'a> {
    type PlayerInfo = u8;
    type Action = u8;
    type ChanceInfo = u8;
    type Outcomes = Outs<'a>;
    type Actions = Acts<'a>;
    fn into_game_node(self) -> GameNode<Self> {
        let d = &self.0[self.1];
        match d.kind {
            0 => GameNode::Terminal(d.pay),
            1 => GameNode::Chance(d.cinfo, Outs { a: self, i: 0 }),
            _ => GameNode::Player(
                if d.two {
                    PlayerNum::Two
                } else {
                    PlayerNum::One
                },
                d.info,
                Acts { a: self, i: 0 },
            ),
        }
    }
}

fn any_weight() -> f64 {
    let k: u8 = kani::any();
    kani::assume(k <= 6);
    match k {
        0 => 1.0,
        1 => 2.0,
        2 => 3.0,
        3 => 0.0,
        4 => -1.0,
        5 => f64::INFINITY,
        _ => f64::NAN,
    }
}

fn good_w(w: f64) -> bool {
    w > 0.0 && w.is_finite()
}

fn label3() -> u8 {
    let k: u8 = kani::any();
    kani::assume(k <= 2);
    k
}

fn kind_of(e: &GameError) -> u8 {
    match e {
        GameError::EmptyChance => 0,
        GameError::NonPositiveChance => 1,
        GameError::ProbabilitiesNotEqual => 2,
        GameError::EmptyPlayer => 3,
        GameError::ActionsNotEqual => 4,
        GameError::ActionsNotUnique => 5,
        GameError::ImperfectRecall => 6,
        #[allow(unreachable_patterns)]
        _ => 9,
    }
}

/// Rung 1: one chance or decision node over 0..2 terminals: the per-node rules.
#[kani::proof]
#[kani::unwind(3)]
fn c11_per_node_rules() {
    let chance: bool = kani::any();
    let n: usize = kani::any();
    kani::assume(n <= 2);
    let w = [any_weight(), any_weight()];
    let acts = [label3(), label3()];
    let arena = [
        Desc {
            kind: if chance { 1 } else { 2 },
            n,
            kids: [1, 2],
            two: kani::any(),
            info: 5,
            cinfo: if kani::any() { Some(3) } else { None },
            acts,
            w,
            pay: 0.0,
        },
        TERM,
        TERM,
    ];
    let r = Game::<u8, u8>::from_root(A(&arena, 0));
    // contract
    let mut violated = [false; 7];
    if chance {
        if n == 0 {
            violated[0] = true;
        }
        for i in 0..2 {
            if i < n && !good_w(w[i]) {
                violated[1] = true;
            }
        }
    } else {
        if n == 0 {
            violated[3] = true;
        }
        if n == 2 && acts[0] == acts[1] {
            violated[5] = true;
        }
    }
    let any = violated[0] || violated[1] || violated[3] || violated[5];
    kani::cover!(
        chance && n == 1 && !any,
        "single-outcome chance node (collapsed)"
    );
    kani::cover!(!chance && n == 1, "single-action decision node (collapsed)");
    kani::cover!(chance && n == 2 && violated[1], "bad weight");
    match &r {
        Ok(g) => {
            assert!(
                !any,
                "C11 accept: constructor accepted a tree that violates the documented contract"
            );
            if n == 2 {
                let multi = g.player_infosets[0].len() + g.player_infosets[1].len();
                assert!(
                    (multi == 1) == !chance
                        && g.chance_infosets.len() == if chance { 1 } else { 0 },
                    "C11 tables: infoset tables do not describe the tree"
                );
            }
        }
        Err(e) => {
            assert!(
                any,
                "C11 reject: constructor rejected a tree that satisfies the documented contract"
            );
            assert!(
                kind_of(e) <= 6 && violated[kind_of(e) as usize],
                "C11 error-kind: the error does not name a rule the tree violates"
            );
        }
    }
    core::mem::forget(r);
}

#[cfg(test)]
#[path = "/verif/.work/playback/c11.rs"]
mod pb;
