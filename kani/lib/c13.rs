//! C13 — named view: NamedStrategyIter / NamedStrategyActionIter / as_named / round trip
use super::util::*;
use crate::*;

fn infos() -> [PlayerInfosetData<u8, u8>; 2] {
    [
        PlayerInfosetData {
            infoset: 10,
            actions: Box::new([0u8, 1]) as Box<[u8]>,
            prev_infoset: None,
        },
        PlayerInfosetData {
            infoset: 11,
            actions: Box::new([4u8, 5, 6]) as Box<[u8]>,
            prev_infoset: Some(0),
        },
    ]
}

/// Outer iterator. Every sub-shape {[], [2], [3], [2,3]} x {0,1,2 single-action infosets}: at every
/// prefix the advertised exact length equals the number of infosets still to come; infosets come in
/// table order, multi-action ones first, each exactly once.
#[kani::proof]
#[kani::unwind(6)]
fn c13_infoset_iter_len_and_order() {
    let infos = infos();
    let singles: [(u8, u8); 2] = [(20, 7), (21, 8)];
    let probs: [f64; 5] = [0.5, 0.5, 0.25, 0.0, 0.75];
    let starts = [0usize, 2, 5];
    let a: usize = kani::any();
    let b: usize = kani::any();
    let c: usize = kani::any();
    kani::assume(a <= b && b <= 2 && c <= 2);
    let mut it = NamedStrategyIter::new(&infos[a..b], &probs[starts[a]..starts[b]], &singles[..c]);
    let total = (b - a) + c;
    let mut yielded = 0usize;
    kani::cover!(
        a == 0 && b == 2 && c == 2,
        "two multi-action and two single-action infosets"
    );
    kani::cover!(b - a == 1 && c == 0, "one multi-action infoset only");
    kani::cover!(b == a && c == 1, "single-action infosets only");
    loop {
        let (lo, hi) = it.size_hint();
        assert!(
            hi == Some(lo),
            "C13 len: infoset iterator size_hint is not exact"
        );
        assert!(
            lo == total - yielded,
            "C13 len: advertised number of infosets != number still yielded"
        );
        match it.next() {
            None => {
                assert!(
                    yielded == total,
                    "C13 complete: iterator ended before every infoset was listed"
                );
                break;
            }
            Some((name, _acts)) => {
                assert!(
                    yielded < total,
                    "C13 complete: more infosets listed than exist"
                );
                if yielded < b - a {
                    assert!(
                        *name == infos[a + yielded].infoset,
                        "C13 order: wrong infoset name"
                    );
                } else {
                    assert!(
                        *name == singles[yielded - (b - a)].0,
                        "C13 order: wrong single-action infoset name"
                    );
                }
                yielded += 1;
            }
        }
    }
    core::mem::forget(infos);
}

/// Inner iterator of the second of two multi-action infosets (3 actions; the first has 2): every
/// zero pattern of the probabilities. Advertised length == items still to come at every prefix;
/// exactly the positive-probability actions, in order, with this infoset's own probabilities.
#[kani::proof]
#[kani::unwind(6)]
fn c13_action_iter_len_and_items() {
    let infos = infos();
    let singles: [(u8, u8); 1] = [(20, 7)];
    let probs: [f64; 5] = [any_prob(), any_prob(), any_prob(), any_prob(), any_prob()];
    let mut it = NamedStrategyIter::new(&infos[..], &probs[..], &singles[..]);
    let which: bool = kani::any();
    let (idx, s, e) = if which {
        (1usize, 2usize, 5usize)
    } else {
        (0usize, 0usize, 2usize)
    };
    if which {
        let _ = it.next();
    }
    let mut remaining = 0usize;
    for q in s..e {
        if probs[q] > 0.0 {
            remaining += 1;
        }
    }
    kani::cover!(
        which && remaining == 1 && probs[4] > 0.0,
        "only the last action has positive probability"
    );
    kani::cover!(which && remaining == 3, "all three actions positive");
    kani::cover!(!which && remaining == 0, "no positive action (degenerate)");
    match it.next() {
        None => assert!(false, "C13 complete: multi-action infoset missing"),
        Some((name, mut acts)) => {
            assert!(*name == infos[idx].infoset, "C13 order: wrong infoset name");
            let mut pos = s;
            loop {
                let (alo, ahi) = acts.size_hint();
                assert!(
                    ahi == Some(alo),
                    "C13 len: action iterator size_hint is not exact"
                );
                assert!(
                    alo == remaining,
                    "C13 len: advertised number of actions != number still yielded"
                );
                match acts.next() {
                    None => {
                        assert!(
                            remaining == 0,
                            "C13 complete: positive-probability action missing"
                        );
                        break;
                    }
                    Some((act, p)) => {
                        while pos < e && !(probs[pos] > 0.0) {
                            pos += 1;
                        }
                        assert!(
                            pos < e,
                            "C13 complete: more actions listed than have positive probability"
                        );
                        assert!(
                            *act == infos[idx].actions[pos - s],
                            "C13 items: wrong action name"
                        );
                        assert!(
                            p.to_bits() == probs[pos].to_bits(),
                            "C13 items: wrong probability"
                        );
                        pos += 1;
                        remaining -= 1;
                    }
                }
            }
        }
    }
    core::mem::forget(infos);
}

/// Single-action infosets are listed with their only action at probability one, length 1 then 0.
#[kani::proof]
#[kani::unwind(4)]
fn c13_single_action_items() {
    let infos: [PlayerInfosetData<u8, u8>; 0] = [];
    let singles: [(u8, u8); 2] = [(20, 7), (21, 8)];
    let probs: [f64; 0] = [];
    let mut it = NamedStrategyIter::new(&infos[..], &probs[..], &singles[..]);
    let second: bool = kani::any();
    if second {
        let _ = it.next();
    }
    let idx = if second { 1 } else { 0 };
    kani::cover!(second, "second single-action infoset");
    match it.next() {
        None => assert!(false, "C13 complete: single-action infoset missing"),
        Some((name, mut acts)) => {
            assert!(
                *name == singles[idx].0,
                "C13 order: wrong single-action infoset name"
            );
            assert!(
                acts.size_hint() == (1, Some(1)),
                "C13 len: single-action iterator length"
            );
            match acts.next() {
                Some((act, p)) => {
                    assert!(
                        *act == singles[idx].1 && p == 1.0,
                        "C13 items: single action must have probability one"
                    );
                }
                None => assert!(
                    false,
                    "C13 complete: single-action infoset without its action"
                ),
            }
            assert!(
                acts.size_hint() == (0, Some(0)),
                "C13 len: single-action iterator length after its item"
            );
            assert!(
                acts.next().is_none(),
                "C13 complete: single-action infoset with two actions"
            );
        }
    }
}

fn rt_game() -> Game<u8, u8> {
    table_game([&[(10, &[0, 1])], &[(30, &[4, 5])]], [&[(20, 7)], &[]])
}

/// as_named wires each player's tables to that player's probabilities, and importing the view
/// back gives the same profile (quarter grid: normalisation is exact).
#[kani::proof]
#[kani::unwind(4)]
fn c13_round_trip_from_named_eq() {
    let game = rt_game();
    let a: u8 = kani::any();
    kani::assume(a <= 4);
    let d: u8 = kani::any();
    kani::assume(d <= 4);
    let p1 = [a as f64 / 4.0, (4 - a) as f64 / 4.0];
    let p2 = [d as f64 / 4.0, (4 - d) as f64 / 4.0];
    let s = Strategies {
        game: &game,
        probs: [Box::new(p1) as Box<[f64]>, Box::new(p2) as Box<[f64]>],
    };
    kani::cover!(
        a == 0 && d == 4,
        "pure profile with zero-probability actions"
    );
    kani::cover!(a == 2 && d == 3, "fully mixed profile");
    let back = game.from_named_eq(s.as_named());
    match back {
        Ok(t) => {
            for i in 0..2 {
                assert!(
                    t.probs[0][i].to_bits() == p1[i].to_bits(),
                    "C13 round-trip: player one differs after import"
                );
                assert!(
                    t.probs[1][i].to_bits() == p2[i].to_bits(),
                    "C13 round-trip: player two differs after import"
                );
            }
            core::mem::forget(t);
        }
        Err(_) => assert!(false, "C13 round-trip: importing the named view failed"),
    }
    core::mem::forget(s);
}

#[cfg(test)]
#[path = "/verif/.work/playback/c13.rs"]
mod pb;
