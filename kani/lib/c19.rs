//! C19 — Strategies::distance
use super::util::*;
use crate::*;

/// Model of x -> x^p on the grid {0, 1/4, 1/2, 3/4, 1} for one fixed exponent p: an uninterpreted
/// function constrained by the contract of powf on [0,1] x [2^-10, 64]:
/// 0^p = 0, 1^p = 1, strictly increasing, values in (0,1), below the identity for p >= 1 and
/// above it for p <= 1.
static mut POW_TABLE: [f64; 3] = [0.0; 3];
static mut POW_P: f64 = 0.0;

static mut FIXED_TABLE: bool = false;

fn init_pow_table(p: f64) {
    if unsafe { FIXED_TABLE } {
        // one concrete member of the contract class for p >= 1 (x^p on the grid is some increasing
        // sequence below the identity); keeps every sum concrete up to the choice of profiles
        unsafe {
            POW_TABLE = [0.0625, 0.25, 0.5625];
            POW_P = p;
        }
        return;
    }
    let t: [f64; 3] = [kani::any(), kani::any(), kani::any()];
    kani::assume(t[0] > 0.0 && t[0] < t[1] && t[1] < t[2] && t[2] < 1.0);
    if p >= 1.0 {
        kani::assume(t[0] <= 0.25 && t[1] <= 0.5 && t[2] <= 0.75);
    }
    if p <= 1.0 {
        kani::assume(t[0] >= 0.25 && t[1] >= 0.5 && t[2] >= 0.75);
    }
    unsafe {
        POW_TABLE = t;
        POW_P = p;
    }
}

fn powf_model(b: f64, p: f64) -> f64 {
    unsafe {
        assert!(
            p == POW_P,
            "harness: powf called with an unexpected exponent"
        );
        if b == 0.0 {
            0.0
        } else if b == 0.25 {
            POW_TABLE[0]
        } else if b == 0.5 {
            POW_TABLE[1]
        } else if b == 0.75 {
            POW_TABLE[2]
        } else if b == 1.0 {
            1.0
        } else {
            assert!(false, "harness: powf called off the grid");
            0.0
        }
    }
}

fn any_exponent() -> f64 {
    let p: f64 = kani::any();
    kani::assume(p >= 0.0009765625 && p <= 64.0);
    p
}

/// quarter-grid distribution over three actions
fn any_quarters3() -> [f64; 3] {
    let a: u8 = kani::any();
    let b: u8 = kani::any();
    kani::assume(a <= 4 && b <= 4 && a + b <= 4);
    [a as f64 / 4.0, b as f64 / 4.0, (4 - a - b) as f64 / 4.0]
}

fn any_quarters2() -> [f64; 2] {
    let a: u8 = kani::any();
    kani::assume(a <= 4);
    [a as f64 / 4.0, (4 - a) as f64 / 4.0]
}

fn game_a() -> Game<u8, u8> {
    table_game([&[(0, &[0, 1, 2])], &[(0, &[0, 1])]], [&[(9, 0)], &[]])
}

/// player two has no multi-action infoset at all (only a single-action one)
fn game_b() -> Game<u8, u8> {
    table_game([&[(0, &[0, 1])], &[]], [&[], &[(5, 0)]])
}

fn game_c() -> Game<u8, u8> {
    table_game([&[(0, &[0, 1])], &[(0, &[0, 1])]], [&[(9, 0)], &[]])
}

/// mode 0: exponent >= 1, all assertions; mode 1: exponent < 1, everything but the upper bound;
/// mode 2: exponent < 1, only the upper bound. `three`: player one has a 3-action infoset.
fn distance_core(mode: u8, three: bool) {
    let game = if three { game_a() } else { game_c() };
    let p = any_exponent();
    if mode == 0 {
        kani::assume(p >= 1.0);
    } else if mode != 3 {
        kani::assume(p < 1.0);
    } else if unsafe { FIXED_TABLE } {
        // the table is x^2: the exponent must be 2 so that the native replay (real powf) agrees
        kani::assume(p == 2.0);
    }
    let (l1, r1): ([f64; 3], [f64; 3]) = if three {
        (any_quarters3(), any_quarters3())
    } else {
        let a = any_quarters2();
        let b = any_quarters2();
        ([a[0], a[1], 0.0], [b[0], b[1], 0.0])
    };
    let l2 = any_quarters2();
    let r2 = any_quarters2();
    init_pow_table(p);
    let n1 = if three { 3 } else { 2 };
    let s = Strategies {
        game: &game,
        probs: [
            l1[..n1].to_vec().into_boxed_slice(),
            Box::new(l2) as Box<[f64]>,
        ],
    };
    let t = Strategies {
        game: &game,
        probs: [
            r1[..n1].to_vec().into_boxed_slice(),
            Box::new(r2) as Box<[f64]>,
        ],
    };
    let d = s.distance(&t, p);
    let e = t.distance(&s, p);
    let same1 = l1[0] == r1[0] && l1[1] == r1[1] && l1[2] == r1[2];
    let same2 = l2[0] == r2[0];
    kani::cover!(same1 && !same2, "player one equal, player two different");
    kani::cover!(
        l1[0] == 1.0 && r1[1] == 1.0 && l2[0] == 1.0 && r2[1] == 1.0,
        "disjoint pure supports"
    );
    kani::cover!(
        l1[0] == 0.5 && r1[0] == 0.25,
        "mixed profiles a quarter apart"
    );
    if mode == 3 {
        // symmetry and zero-iff-equal only (cheap enough for the quick tier with 3 actions)
        for i in 0..2 {
            assert!(
                d[i].to_bits() == e[i].to_bits(),
                "C19 symmetric: d(a,b) != d(b,a)"
            );
        }
        assert!((d[0] == 0.0) == same1, "C19 zero-iff-equal: player one");
        core::mem::forget(s);
        core::mem::forget(t);
        return;
    }
    for i in 0..2 {
        if mode == 2 {
            assert!(
                d[i] <= 1.0,
                "C19 range-p-below-one: distance above 1 for an exponent below one"
            );
        } else {
            assert!(!d[i].is_nan(), "C19 nan: distance is NaN");
            assert!(d[i] >= 0.0, "C19 range: distance negative");
            if mode == 0 {
                assert!(d[i] <= 1.0, "C19 range: distance above 1");
            }
            assert!(
                d[i].to_bits() == e[i].to_bits(),
                "C19 symmetric: d(a,b) != d(b,a)"
            );
        }
    }
    if mode != 2 {
        assert!((d[0] == 0.0) == same1, "C19 zero-iff-equal: player one");
        assert!((d[1] == 0.0) == same2, "C19 zero-iff-equal: player two");
    }
    core::mem::forget(s);
    core::mem::forget(t);
}

#[kani::proof]
#[kani::unwind(5)]
#[kani::stub(f64::powf, powf_model)]
fn c19_distance_2x2_p_ge_1() {
    distance_core(0, false);
}

#[kani::proof]
#[kani::unwind(5)]
#[kani::stub(f64::powf, powf_model)]
fn c19_distance_2x2_p_lt_1() {
    distance_core(1, false);
}

#[kani::proof]
#[kani::unwind(5)]
#[kani::stub(f64::powf, powf_model)]
fn c19_distance_2x2_p_lt_1_upper_bound() {
    distance_core(2, false);
}

#[kani::proof]
#[kani::unwind(5)]
#[kani::stub(f64::powf, powf_model)]
fn c19_distance_3x2_p_ge_1() {
    distance_core(0, true);
}

#[kani::proof]
#[kani::unwind(5)]
#[kani::stub(f64::powf, powf_model)]
fn c19_distance_3x2_p_lt_1() {
    distance_core(1, true);
}

#[kani::proof]
#[kani::unwind(5)]
#[kani::stub(f64::powf, powf_model)]
fn c19_distance_3x2_p_lt_1_upper_bound() {
    distance_core(2, true);
}

#[kani::proof]
#[kani::unwind(5)]
#[kani::stub(f64::powf, powf_model)]
fn c19_distance_3x2_symmetry() {
    distance_core(3, true);
}

/// same with exponent 2 and powf fixed to x^2 on the grid: cheap enough for
/// the quick tier, still all pairs of quarter-grid profiles over three actions
#[kani::proof]
#[kani::unwind(5)]
#[kani::stub(f64::powf, powf_model)]
fn c19_distance_3x2_symmetry_square() {
    unsafe {
        FIXED_TABLE = true;
    }
    distance_core(3, true);
}

/// Players with different numbers of infosets (two for player one, one for player two), exponent 2:
/// each player's distance is the mean over THAT player's infosets of half the summed squared
/// differences — pins the normaliser per player.
#[kani::proof]
#[kani::unwind(6)]
#[kani::stub(f64::powf, powf_model)]
fn c19_distance_unequal_tables() {
    unsafe {
        FIXED_TABLE = true;
    }
    let game = table_game([&[(0, &[0, 1]), (1, &[0, 1])], &[(0, &[0, 1])]], [&[], &[]]);
    let (a, b, c, d) = (
        any_quarters2(),
        any_quarters2(),
        any_quarters2(),
        any_quarters2(),
    );
    let (e, f) = (any_quarters2(), any_quarters2());
    init_pow_table(2.0);
    let s = Strategies {
        game: &game,
        probs: [
            Box::new([a[0], a[1], b[0], b[1]]) as Box<[f64]>,
            Box::new(e) as Box<[f64]>,
        ],
    };
    let t = Strategies {
        game: &game,
        probs: [
            Box::new([c[0], c[1], d[0], d[1]]) as Box<[f64]>,
            Box::new(f) as Box<[f64]>,
        ],
    };
    let dist = s.distance(&t, 2.0);
    let sq = |x: f64| x * x;
    let w1 = (sq(a[0] - c[0]) + sq(a[1] - c[1]) + sq(b[0] - d[0]) + sq(b[1] - d[1])) / 4.0;
    let w2 = (sq(e[0] - f[0]) + sq(e[1] - f[1])) / 2.0;
    kani::cover!(
        a[0] == 1.0 && c[0] == 0.0 && e[0] == f[0],
        "player one differs maximally in its first infoset, player two equal"
    );
    assert!(
        dist[0] == w1,
        "C19 value: player one's distance is not the mean over player one's infosets"
    );
    assert!(
        dist[1] == w2,
        "C19 value: player two's distance is not the mean over player two's infosets"
    );
    core::mem::forget(s);
    core::mem::forget(t);
}

/// A player without any multi-action infoset: the distance is still a number (0).
#[kani::proof]
#[kani::unwind(4)]
#[kani::stub(f64::powf, powf_model)]
fn c19_distance_player_without_decisions() {
    let game = game_b();
    let p = any_exponent();
    let l1 = any_quarters2();
    let r1 = any_quarters2();
    init_pow_table(p);
    let s = Strategies {
        game: &game,
        probs: [Box::new(l1) as Box<[f64]>, (Box::new([]) as Box<[f64]>)],
    };
    let t = Strategies {
        game: &game,
        probs: [Box::new(r1) as Box<[f64]>, (Box::new([]) as Box<[f64]>)],
    };
    let d = s.distance(&t, p);
    kani::cover!(l1[0] != r1[0], "player one differs");
    assert!(
        !d[1].is_nan(),
        "C19 nan: distance is NaN for a player without multi-action infosets"
    );
    assert!(
        d[1] == 0.0,
        "C19 zero-iff-equal: player without decisions must be at distance 0"
    );
    assert!(!d[0].is_nan() && d[0] >= 0.0, "C19 nan: distance is NaN");
    core::mem::forget(s);
    core::mem::forget(t);
}

/// Non-positive or NaN exponent: the documented panic must fire (the call never returns).
#[kani::proof]
#[kani::unwind(4)]
fn c19_panics_on_bad_exponent() {
    let game = game_b();
    let p: f64 = kani::any();
    kani::assume(!(p > 0.0));
    let s = Strategies {
        game: &game,
        probs: [
            Box::new([0.5, 0.5]) as Box<[f64]>,
            (Box::new([]) as Box<[f64]>),
        ],
    };
    let t = Strategies {
        game: &game,
        probs: [
            Box::new([0.5, 0.5]) as Box<[f64]>,
            (Box::new([]) as Box<[f64]>),
        ],
    };
    kani::cover!(p.is_nan(), "NaN exponent");
    kani::cover!(p == 0.0, "zero exponent");
    let _ = s.distance(&t, p);
    assert!(
        false,
        "C19 panic-contract: distance returned for a non-positive exponent"
    );
}

/// Profiles of two different (even if structurally identical) games: the documented panic must fire.
#[kani::proof]
#[kani::unwind(4)]
fn c19_panics_on_different_games() {
    let g1 = game_b();
    let g2 = game_b();
    let s = Strategies {
        game: &g1,
        probs: [
            Box::new([0.5, 0.5]) as Box<[f64]>,
            (Box::new([]) as Box<[f64]>),
        ],
    };
    let t = Strategies {
        game: &g2,
        probs: [
            Box::new([0.5, 0.5]) as Box<[f64]>,
            (Box::new([]) as Box<[f64]>),
        ],
    };
    kani::cover!(true, "reached the call");
    let _ = s.distance(&t, 1.0);
    assert!(
        false,
        "C19 panic-contract: distance returned for profiles of different games"
    );
}

#[cfg(test)]
#[path = "/verif/.work/playback/c19.rs"]
mod pb;
