//! C18 — Strategies::truncate
use super::util::*;
use crate::*;

fn valid_dist(q: &[f64]) -> bool {
    let mut some = false;
    for v in q {
        if !(*v >= 0.0) || !(*v <= 1.0) {
            return false;
        }
        if *v > 0.0 {
            some = true;
        }
    }
    some
}

fn near(a: f64, b: f64) -> bool {
    let d = a - b;
    d <= 1e-9 && d >= -1e-9
}

/// Full-range floats, two 2-action infosets (a, 1-a), (b, 1-b); every non-NaN threshold incl. ±inf.
/// Always a distribution afterwards; support is exactly the positive actions above the threshold
/// whenever one exists; an infoset is not disturbed by what happens in the other one.
#[kani::proof]
#[kani::unwind(4)]
fn c18_truncate_valid_full() {
    let game = table_game([&[(0, &[0, 1]), (1, &[0, 1])], &[]], [&[], &[]]);
    let a = any_prob();
    let b = any_prob();
    let p: [f64; 4] = [a, 1.0 - a, b, 1.0 - b];
    let h: f64 = kani::any();
    kani::assume(!h.is_nan());
    let mut s = Strategies {
        game: &game,
        probs: [Box::new(p) as Box<[f64]>, Vec::new().into_boxed_slice()],
    };
    s.truncate(h);
    let q = &s.probs[0];
    assert!(q.len() == 4);
    kani::cover!(p[0] > h && !(p[1] > h), "one action removed, one kept");
    kani::cover!(!(p[0] > h || p[1] > h), "no action above the threshold");
    kani::cover!(h < 0.0, "negative threshold");
    kani::cover!(h == f64::INFINITY, "threshold +inf");
    assert!(
        valid_dist(&q[0..2]),
        "C18 valid: infoset 0 is not a distribution after truncate"
    );
    assert!(
        valid_dist(&q[2..4]),
        "C18 valid: infoset 1 is not a distribution after truncate"
    );
    for base in [0usize, 2] {
        if p[base] > h || p[base + 1] > h {
            for i in base..base + 2 {
                assert!(
                    (q[i] > 0.0) == (p[i] > h && p[i] > 0.0),
                    "C18 support: surviving actions are not exactly those above the threshold"
                );
            }
        }
    }
    core::mem::forget(s);
}

/// Dyadic domain (k/16, three actions, sum exactly 1; threshold j/32 in [-1/32, 33/32]): values.
/// survivors get p_i / (sum of survivors); result sums to one; threshold below every positive
/// probability changes nothing; second truncation changes nothing.
#[kani::proof]
#[kani::unwind(5)]
fn c18_truncate_values_dyadic() {
    let game = table_game([&[(7, &[0, 1, 2])], &[(3, &[0, 1])]], [&[], &[]]);
    let k0: u8 = kani::any();
    let k1: u8 = kani::any();
    kani::assume(k0 <= 16 && k1 <= 16 && k0 + k1 <= 16);
    let k2 = 16 - k0 - k1;
    let p = [k0 as f64 / 16.0, k1 as f64 / 16.0, k2 as f64 / 16.0];
    let j: u8 = kani::any();
    kani::assume(j <= 34);
    let h = (j as f64 - 1.0) / 32.0;
    let m: u8 = kani::any();
    kani::assume(m <= 8);
    let p2 = [m as f64 / 8.0, (8 - m) as f64 / 8.0];
    let mut s = Strategies {
        game: &game,
        probs: [Box::new(p) as Box<[f64]>, Box::new(p2) as Box<[f64]>],
    };
    s.truncate(h);
    let q = [s.probs[0][0], s.probs[0][1], s.probs[0][2]];
    let r = [s.probs[1][0], s.probs[1][1]];
    // integer oracle: survivors and their total in sixteenths
    let kk = [k0, k1, k2];
    let mut tot: u8 = 0;
    for i in 0..3 {
        if (kk[i] as i32) * 2 > (j as i32 - 1) {
            tot += kk[i];
        }
    }
    kani::cover!(tot > 0 && tot < 16, "proper subset survives");
    kani::cover!(tot == 0, "nothing survives");
    kani::cover!(
        tot == 16 && k0 > 0 && k1 > 0 && k2 > 0,
        "threshold below every positive probability"
    );
    assert!(
        valid_dist(&q),
        "C18 valid: not a distribution after truncate (dyadic)"
    );
    assert!(
        valid_dist(&r),
        "C18 valid: other player's infoset not a distribution after truncate"
    );
    assert!(
        near(q[0] + q[1] + q[2], 1.0),
        "C18 sum: result does not sum to one"
    );
    assert!(
        near(r[0] + r[1], 1.0),
        "C18 sum: result does not sum to one (player two)"
    );
    if tot > 0 {
        for i in 0..3 {
            let want = if (kk[i] as i32) * 2 > (j as i32 - 1) {
                kk[i] as f64 / tot as f64
            } else {
                0.0
            };
            assert!(
                near(q[i], want),
                "C18 rescale: survivor is not p_i / sum of survivors"
            );
        }
    }
    if tot == 16 && j >= 1 {
        // threshold below every positive probability (and non-negative): nothing changes
        for i in 0..3 {
            assert!(
                near(q[i], p[i]),
                "C18 unchanged: low threshold changed the profile"
            );
        }
    }
    // idempotence
    s.truncate(h);
    for i in 0..3 {
        assert!(
            near(s.probs[0][i], q[i]),
            "C18 idempotent: second truncate changed the profile"
        );
    }
    for i in 0..2 {
        assert!(
            near(s.probs[1][i], r[i]),
            "C18 idempotent: second truncate changed the profile (player two)"
        );
    }
    core::mem::forget(s);
}

#[cfg(test)]
#[path = "/verif/.work/playback/c18.rs"]
mod pb;
