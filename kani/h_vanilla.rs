// Kani harnesses compiled as `crate::solve::vanilla::verif_kani` (child of src/solve/vanilla.rs).
#![allow(dead_code, unused_imports, clippy::all)]

#[path = "/verif/kani/vanilla/advance.rs"]
mod advance;
#[path = "/verif/kani/vanilla/driver.rs"]
mod driver;
#[path = "/verif/kani/vanilla/steps.rs"]
mod steps;
#[path = "/verif/kani/vanilla/threads.rs"]
mod threads;
