// Kani harnesses compiled as `crate::verif_kani` (child of src/lib.rs) under cfg(kani).
// They see every private item of the crate root: Game/Strategies fields, Node, the iterators.
#![allow(dead_code, unused_imports, clippy::all)]

#[path = "/verif/kani/lib/c02.rs"]
mod c02;
#[path = "/verif/kani/lib/c11.rs"]
pub(crate) mod c11;
#[path = "/verif/kani/lib/c13.rs"]
mod c13;
#[path = "/verif/kani/lib/c14.rs"]
mod c14;
#[path = "/verif/kani/lib/c18.rs"]
mod c18;
#[path = "/verif/kani/lib/c19.rs"]
mod c19;
#[path = "/verif/kani/lib/compact.rs"]
mod compact;
#[path = "/verif/kani/models/maps.rs"]
pub(crate) mod maps;
#[path = "/verif/kani/lib/util.rs"]
pub(crate) mod util;
