//! Association-list models of the library containers the crate uses while *building* games and
//! importing strategies (std HashMap/HashSet, indexmap IndexMap). Same API subset, same
//! observable behaviour for the operations used (lookup by equality, insertion order for
//! IndexMap; iteration order of HashMap is unspecified in std and insertion order here).
//! `Hash` is never called. Part of the trusted base of every harness that goes through them.
use std::borrow::Borrow;

#[derive(Debug, Clone)]
pub struct HashMap<K, V> {
    items: Vec<(K, V)>,
}

impl<K: Eq, V> HashMap<K, V> {
    pub fn new() -> Self {
        HashMap { items: Vec::new() }
    }
    pub fn with_capacity(n: usize) -> Self {
        HashMap {
            items: Vec::with_capacity(n),
        }
    }
    pub fn len(&self) -> usize {
        self.items.len()
    }
    fn pos<Q: ?Sized + Eq>(&self, k: &Q) -> Option<usize>
    where
        K: Borrow<Q>,
    {
        let mut i = 0;
        while i < self.items.len() {
            if self.items[i].0.borrow() == k {
                return Some(i);
            }
            i += 1;
        }
        None
    }
    pub fn insert(&mut self, k: K, v: V) -> Option<V> {
        match self.pos(&k) {
            Some(i) => Some(core::mem::replace(&mut self.items[i].1, v)),
            None => {
                self.items.push((k, v));
                None
            }
        }
    }
    pub fn get<Q: ?Sized + Eq>(&self, k: &Q) -> Option<&V>
    where
        K: Borrow<Q>,
    {
        match self.pos(k) {
            Some(i) => Some(&self.items[i].1),
            None => None,
        }
    }
    pub fn get_mut<Q: ?Sized + Eq>(&mut self, k: &Q) -> Option<&mut V>
    where
        K: Borrow<Q>,
    {
        match self.pos(k) {
            Some(i) => Some(&mut self.items[i].1),
            None => None,
        }
    }
    pub fn entry(&mut self, k: K) -> hash_map::Entry<'_, K, V> {
        match self.pos(&k) {
            Some(i) => hash_map::Entry::Occupied(hash_map::OccupiedEntry { map: self, idx: i }),
            None => hash_map::Entry::Vacant(hash_map::VacantEntry { map: self, key: k }),
        }
    }
    pub fn into_values(self) -> impl Iterator<Item = V> {
        self.items.into_iter().map(|(_, v)| v)
    }
    pub fn into_keys(self) -> impl Iterator<Item = K> {
        self.items.into_iter().map(|(k, _)| k)
    }
    pub fn is_empty(&self) -> bool {
        self.items.is_empty()
    }
    pub fn clear(&mut self) {
        self.items.clear()
    }
    pub fn contains_key<Q: ?Sized + Eq>(&self, k: &Q) -> bool
    where
        K: Borrow<Q>,
    {
        self.pos(k).is_some()
    }
    pub fn remove<Q: ?Sized + Eq>(&mut self, k: &Q) -> Option<V>
    where
        K: Borrow<Q>,
    {
        match self.pos(k) {
            Some(i) => Some(self.items.remove(i).1),
            None => None,
        }
    }
    pub fn iter(&self) -> impl Iterator<Item = (&K, &V)> {
        self.items.iter().map(|(k, v)| (k, v))
    }
    pub fn iter_mut(&mut self) -> impl Iterator<Item = (&K, &mut V)> {
        self.items.iter_mut().map(|(k, v)| (&*k, v))
    }
    pub fn keys(&self) -> impl Iterator<Item = &K> {
        self.items.iter().map(|(k, _)| k)
    }
    pub fn values(&self) -> impl Iterator<Item = &V> {
        self.items.iter().map(|(_, v)| v)
    }
    pub fn values_mut(&mut self) -> impl Iterator<Item = &mut V> {
        self.items.iter_mut().map(|(_, v)| v)
    }
}

impl<K: Eq, V> Default for HashMap<K, V> {
    fn default() -> Self {
        HashMap::new()
    }
}

impl<K: Eq, V> Extend<(K, V)> for HashMap<K, V> {
    fn extend<T: IntoIterator<Item = (K, V)>>(&mut self, iter: T) {
        for (k, v) in iter {
            self.insert(k, v);
        }
    }
}

impl<K: Eq, V> IntoIterator for HashMap<K, V> {
    type Item = (K, V);
    type IntoIter = std::vec::IntoIter<(K, V)>;
    fn into_iter(self) -> Self::IntoIter {
        self.items.into_iter()
    }
}

impl<K: Eq, V> FromIterator<(K, V)> for HashMap<K, V> {
    fn from_iter<T: IntoIterator<Item = (K, V)>>(iter: T) -> Self {
        let mut m = HashMap::new();
        for (k, v) in iter {
            m.insert(k, v);
        }
        m
    }
}

pub mod hash_map {
    use super::HashMap;
    pub enum Entry<'a, K, V> {
        Occupied(OccupiedEntry<'a, K, V>),
        Vacant(VacantEntry<'a, K, V>),
    }
    pub struct OccupiedEntry<'a, K, V> {
        pub(super) map: &'a mut HashMap<K, V>,
        pub(super) idx: usize,
    }
    pub struct VacantEntry<'a, K, V> {
        pub(super) map: &'a mut HashMap<K, V>,
        pub(super) key: K,
    }
    impl<'a, K, V> OccupiedEntry<'a, K, V> {
        pub fn get(&self) -> &V {
            &self.map.items[self.idx].1
        }
        pub fn get_mut(&mut self) -> &mut V {
            &mut self.map.items[self.idx].1
        }
        pub fn into_mut(self) -> &'a mut V {
            &mut self.map.items[self.idx].1
        }
        pub fn key(&self) -> &K {
            &self.map.items[self.idx].0
        }
        pub fn insert(&mut self, v: V) -> V {
            core::mem::replace(&mut self.map.items[self.idx].1, v)
        }
    }
    impl<'a, K, V> VacantEntry<'a, K, V> {
        pub fn insert(self, v: V) -> &'a mut V {
            self.map.items.push((self.key, v));
            let n = self.map.items.len();
            &mut self.map.items[n - 1].1
        }
        pub fn key(&self) -> &K {
            &self.key
        }
    }
    impl<'a, K, V> Entry<'a, K, V> {
        pub fn or_insert(self, v: V) -> &'a mut V {
            match self {
                Entry::Occupied(e) => e.into_mut(),
                Entry::Vacant(e) => e.insert(v),
            }
        }
        pub fn or_insert_with<F: FnOnce() -> V>(self, f: F) -> &'a mut V {
            match self {
                Entry::Occupied(e) => e.into_mut(),
                Entry::Vacant(e) => e.insert(f()),
            }
        }
    }
}

#[derive(Debug, Clone)]
pub struct HashSet<T> {
    items: Vec<T>,
}

impl<T: Eq> HashSet<T> {
    pub fn new() -> Self {
        HashSet { items: Vec::new() }
    }
    pub fn with_capacity(n: usize) -> Self {
        HashSet {
            items: Vec::with_capacity(n),
        }
    }
    pub fn len(&self) -> usize {
        self.items.len()
    }
    pub fn is_empty(&self) -> bool {
        self.items.is_empty()
    }
    pub fn contains<Q: ?Sized + Eq>(&self, x: &Q) -> bool
    where
        T: Borrow<Q>,
    {
        let mut i = 0;
        while i < self.items.len() {
            if self.items[i].borrow() == x {
                return true;
            }
            i += 1;
        }
        false
    }
    pub fn insert(&mut self, x: T) -> bool {
        if self.contains(&x) {
            false
        } else {
            self.items.push(x);
            true
        }
    }
    pub fn remove<Q: ?Sized + Eq>(&mut self, x: &Q) -> bool
    where
        T: Borrow<Q>,
    {
        let mut i = 0;
        while i < self.items.len() {
            if self.items[i].borrow() == x {
                self.items.remove(i);
                return true;
            }
            i += 1;
        }
        false
    }
    pub fn iter(&self) -> std::slice::Iter<'_, T> {
        self.items.iter()
    }
}

impl<T: Eq> Default for HashSet<T> {
    fn default() -> Self {
        HashSet::new()
    }
}

impl<T: Eq> IntoIterator for HashSet<T> {
    type Item = T;
    type IntoIter = std::vec::IntoIter<T>;
    fn into_iter(self) -> Self::IntoIter {
        self.items.into_iter()
    }
}

impl<T: Eq> FromIterator<T> for HashSet<T> {
    fn from_iter<I: IntoIterator<Item = T>>(iter: I) -> Self {
        let mut items: Vec<T> = Vec::new();
        for x in iter {
            let mut dup = false;
            let mut i = 0;
            while i < items.len() {
                if items[i] == x {
                    dup = true;
                }
                i += 1;
            }
            if !dup {
                items.push(x);
            }
        }
        HashSet { items }
    }
}

/// indexmap::IndexMap subset: insertion-ordered.
#[derive(Debug, Clone)]
pub struct IndexMap<K, V> {
    items: Vec<(K, V)>,
}

impl<K: Eq, V> IndexMap<K, V> {
    pub fn new() -> Self {
        IndexMap { items: Vec::new() }
    }
    pub fn len(&self) -> usize {
        self.items.len()
    }
    pub fn is_empty(&self) -> bool {
        self.items.is_empty()
    }
    pub fn get_index_of<Q: ?Sized + Eq>(&self, k: &Q) -> Option<usize>
    where
        K: Borrow<Q>,
    {
        let mut i = 0;
        while i < self.items.len() {
            if self.items[i].0.borrow() == k {
                return Some(i);
            }
            i += 1;
        }
        None
    }
    pub fn get<Q: ?Sized + Eq>(&self, k: &Q) -> Option<&V>
    where
        K: Borrow<Q>,
    {
        match self.get_index_of(k) {
            Some(i) => Some(&self.items[i].1),
            None => None,
        }
    }
    pub fn get_mut<Q: ?Sized + Eq>(&mut self, k: &Q) -> Option<&mut V>
    where
        K: Borrow<Q>,
    {
        match self.get_index_of(k) {
            Some(i) => Some(&mut self.items[i].1),
            None => None,
        }
    }
    pub fn get_full<Q: ?Sized + Eq>(&self, k: &Q) -> Option<(usize, &K, &V)>
    where
        K: Borrow<Q>,
    {
        match self.get_index_of(k) {
            Some(i) => Some((i, &self.items[i].0, &self.items[i].1)),
            None => None,
        }
    }
    pub fn contains_key<Q: ?Sized + Eq>(&self, k: &Q) -> bool
    where
        K: Borrow<Q>,
    {
        self.get_index_of(k).is_some()
    }
    pub fn insert(&mut self, k: K, v: V) -> Option<V> {
        match self.get_index_of(&k) {
            Some(i) => Some(core::mem::replace(&mut self.items[i].1, v)),
            None => {
                self.items.push((k, v));
                None
            }
        }
    }
    pub fn insert_full(&mut self, k: K, v: V) -> (usize, Option<V>) {
        match self.get_index_of(&k) {
            Some(i) => (i, Some(core::mem::replace(&mut self.items[i].1, v))),
            None => {
                self.items.push((k, v));
                (self.items.len() - 1, None)
            }
        }
    }
    pub fn iter(&self) -> impl Iterator<Item = (&K, &V)> {
        self.items.iter().map(|(k, v)| (k, v))
    }
    pub fn entry(&mut self, k: K) -> map::Entry<'_, K, V> {
        let mut i = 0;
        while i < self.items.len() {
            if self.items[i].0 == k {
                return map::Entry::Occupied(map::OccupiedEntry { map: self, idx: i });
            }
            i += 1;
        }
        map::Entry::Vacant(map::VacantEntry { map: self, key: k })
    }
}

impl<K, V> IntoIterator for IndexMap<K, V> {
    type Item = (K, V);
    type IntoIter = map::IntoIter<K, V>;
    fn into_iter(self) -> Self::IntoIter {
        map::IntoIter {
            inner: self.items.into_iter(),
        }
    }
}

pub mod map {
    use super::IndexMap;
    pub enum Entry<'a, K, V> {
        Occupied(OccupiedEntry<'a, K, V>),
        Vacant(VacantEntry<'a, K, V>),
    }
    pub struct OccupiedEntry<'a, K, V> {
        pub(super) map: &'a mut IndexMap<K, V>,
        pub(super) idx: usize,
    }
    pub struct VacantEntry<'a, K, V> {
        pub(super) map: &'a mut IndexMap<K, V>,
        pub(super) key: K,
    }
    impl<'a, K, V> OccupiedEntry<'a, K, V> {
        pub fn into_mut(self) -> &'a mut V {
            &mut self.map.items[self.idx].1
        }
        pub fn get(&self) -> &V {
            &self.map.items[self.idx].1
        }
        pub fn get_mut(&mut self) -> &mut V {
            &mut self.map.items[self.idx].1
        }
        pub fn index(&self) -> usize {
            self.idx
        }
        pub fn key(&self) -> &K {
            &self.map.items[self.idx].0
        }
    }
    impl<'a, K, V> VacantEntry<'a, K, V> {
        pub fn insert(self, v: V) -> &'a mut V {
            self.map.items.push((self.key, v));
            let n = self.map.items.len();
            &mut self.map.items[n - 1].1
        }
        pub fn index(&self) -> usize {
            self.map.items.len()
        }
        pub fn key(&self) -> &K {
            &self.key
        }
    }
    pub struct IntoIter<K, V> {
        pub(super) inner: std::vec::IntoIter<(K, V)>,
    }
    impl<K, V> Iterator for IntoIter<K, V> {
        type Item = (K, V);
        fn next(&mut self) -> Option<(K, V)> {
            self.inner.next()
        }
        fn size_hint(&self) -> (usize, Option<usize>) {
            self.inner.size_hint()
        }
    }
    impl<K, V> ExactSizeIterator for IntoIter<K, V> {}
}
